#!/bin/bash
# usage: tools/trymut.sh <file-relative-to-repo> <sed-expr> <ID> [<ID>...]   -- apply a one-line mutation, run quick checks, restore
set -u
F="$1"; EXPR="$2"; shift 2
cd /repo || exit 2
if [ -n "$(git status --porcelain)" ]; then echo "repo dirty"; exit 2; fi
sed -i "$EXPR" "$F"
if [ -z "$(git status --porcelain)" ]; then echo "MUTATION DID NOT APPLY"; exit 2; fi
git --no-pager diff | grep '^[-+]' | grep -v '^+++\|^---'
cd /verif
for ID in "$@"; do
  ./check "$ID" --tier quick 2>&1 | grep -c "^VIOLATION" | sed "s/^/$ID violations: /"
  ./check "$ID" --tier quick 2>/dev/null | grep "signature" | sort | uniq -c | head -5
done
cd /repo && git checkout -- . 
rm -f /verif/replays/C*-*.json
