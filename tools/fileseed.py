#!/usr/bin/env python3
"""File a verified seeded change under /verif/seeded/<name>/ (patch.diff, demo.py, notes.md, meta.json)."""
import sys, os, json, shutil, subprocess
src, name, prop, caught, missed, needs = sys.argv[1:7]
srcdir = "/tmp/seedout/" + src
dst = "/verif/seeded/" + name
os.makedirs(dst, exist_ok=True)
patch = "patch.rebased.diff" if os.path.exists(srcdir + "/patch.rebased.diff") and os.path.getsize(srcdir + "/patch.rebased.diff") > 0 else "patch.diff"
shutil.copy(os.path.join(srcdir, patch), dst + "/patch.diff")
for f in ("demo.py", "notes.md"):
    if os.path.exists(os.path.join(srcdir, f)):
        shutil.copy(os.path.join(srcdir, f), dst + "/" + f)
vlog = open(srcdir + "/verify.log").read() if os.path.exists(srcdir + "/verify.log") else ""
meta = {
    "property": prop,
    "origin": "independent sub-agent given only the property text and a scratch worktree (source dir %s)" % src,
    "needs_to_manifest": needs,
    "applies_to_repo_commit": subprocess.check_output(["git", "-C", "/repo", "rev-parse", "--short", "HEAD"]).decode().strip(),
    "confirmed": {
        "how": "tools/verify_seed.sh: patch applied to a scratch worktree of /repo HEAD; demo.py run against unchanged /repo (exit 0) and against the changed tree (exit non-zero); repository test-suite run on the changed tree",
        "log": vlog.splitlines(),
    },
    "checks_run": "tools/seedrun.sh <patch> <IDs> (quick tier, VERIF_REPO pointing at a scratch worktree with the patch applied)",
    "caught_by": [c for c in caught.split(",") if c],
    "not_caught_by": [c for c in missed.split(",") if c],
}
json.dump(meta, open(dst + "/meta.json", "w"), indent=1)
print("filed", dst)
