#!/bin/bash
# usage: tools/seedrun.sh <patch-file> <ID> [<ID>...]
# Applies a seeded change to a scratch worktree of /repo HEAD (never to /repo) and runs the quick checks against it.
P="$1"; shift
# one at a time: two runs of the same check would overwrite each other's replay and evidence files
exec 9>/tmp/verif-seedrun.lock; flock 9
WT=/tmp/wt/seedrun-$$
git -C /repo worktree add -q --detach "$WT" HEAD || exit 2
if ! git -C "$WT" apply "$P" 2>/dev/null; then
  if ! git -C "$WT" apply --3way "$P" 2>/dev/null; then echo "PATCH DOES NOT APPLY"; git -C /repo worktree remove --force "$WT"; exit 2; fi
fi
cd /verif
for ID in "$@"; do
  OUT=$(VERIF_REPO="$WT" ./check "$ID" --tier quick 2>&1)
  echo "$ID: $(echo "$OUT" | grep -c '^VIOLATION') violations; $(echo "$OUT" | grep -c 'HARNESS-ERROR') harness errors"
  echo "$OUT" | grep "signature" | sed 's/.*signature: /     /' | sort | uniq -c | head -6
done
git -C /repo worktree remove --force "$WT"
rm -f /verif/replays/C*-????????????.json
