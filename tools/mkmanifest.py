#!/usr/bin/env python3
"""Regenerate MANIFEST.json from the table below (run from /verif)."""
import json, os, sys

HERE = os.path.dirname(os.path.dirname(os.path.abspath(__file__)))
ENGINE_NOTE = ("Trusted base: CPython 3.12.1, Hypothesis 6.168, the vsched engine (single-baton scheduler, dual-mode "
               "controlled primitives, sys.monitoring line events) and the program interpreter in lib/world.py. "
               "Explored executions are feasible executions of the unmodified library under a line-granular "
               "pre-emption model with an idealised (discrete-event) clock; absence is claimed only for the "
               "enumerated sub-domains listed in the evidence.")
PLAIN_NOTE = ("Trusted base: CPython 3.12.1, Hypothesis 6.168 and the reference model in the check module. "
              "Inputs are generated values/outcome assignments/completion orders; no claim beyond the generated domain.")

CHECKS = {
    "C04": dict(
        category="exploration",
        technique="property-based testing over (program, schedule) pairs: exhaustive single-pre-emption sweeps + Hypothesis-drawn programs/tapes under a deterministic scheduler; oracle = wait-for-graph cycle / stuck client",
        text="Generated client programs (<=3 threads, stacks <=4 deep, nested submissions from every user-code site) are run against the unmodified library under a deterministic scheduler that pre-empts at every library source line; a wait-for cycle, a stuck client or a client still inside an API call after 10^4 virtual seconds is a violation. Exhaustive over single pre-emption placements of the catalogue programs; sampled elsewhere.",
        design_ref="DESIGN.md section 4 (C04), section 2",
        note=ENGINE_NOTE),
    "C01": dict(
        category="exploration",
        technique="model-based property testing: Hypothesis-drawn layer stacks x outcome scripts x submitter threads x tapes under the deterministic scheduler, compared with a sequential reference interpreter of the stack",
        text="Random stacks (all seven layer types, any order, depth<=6, sync or thread-pool base) receive 2-6 tagged submissions from 1-3 threads under generated schedules; every non-cancelled future must carry exactly the outcome, invocation count, arguments and exception identity that lib/models.py computes sequentially; layer-function call counts must add up.",
        design_ref="DESIGN.md section 4 (C01)", note=ENGINE_NOTE),
    "C02": dict(
        category="exploration",
        technique="history-invariant property testing: exhaustive single-pre-emption sweeps over (entry point x operation x completion kind) + Hypothesis-drawn multi-thread histories with tapes; oracle = Future-protocol invariants over the totally ordered event history",
        text="For 24 future-producing entry points (each executor future class in each life stage, each f_* combinator) generated histories of cancel/add_done_callback/result/exception/wait/as_completed from up to 3 threads race with completion by value, exception or cancellation. Invariants: cancel() contract, immutable terminal outcome, every callback exactly once and only when done, every waiter released at the instant the future becomes terminal (virtual clock).",
        design_ref="DESIGN.md section 4 (C02)", note=ENGINE_NOTE),
    "C03": dict(
        category="exploration",
        technique="property-based testing with a virtual clock: exhaustive single-pre-emption sweeps of producer-vs-worker-loop micro-programs with explicit 'done by virtual time T' expectations, external cancellation of inner futures, and Hypothesis-drawn stacks bounded by the timed reference model",
        text="Each catalogue program states when each future must be done given the configured retry delays / poll intervals / timeouts (all shorter than the 2 s / 30 s fallback timers); every single pre-emption placement is executed, so a lost wake-up shows up as a completion at +2 s/+30 s/+interval or never. Cancelling the delegate/inner/input future behind the back of every layer type and combinator must leave the derived future done.",
        design_ref="DESIGN.md section 4 (C03)", note=ENGINE_NOTE),

    "C05": dict(
        category="exploration",
        technique="property-based testing: Hypothesis-drawn policy parameters against the docstring formula (plain), and Hypothesis-drawn outcome scripts x policies x concurrent submissions x tapes under the deterministic scheduler with an exact virtual clock; oracle = timestamped invocation log vs sequential reference",
        text="ExceptionRetryPolicy.should_retry/sleep_time are compared with the documented formula over generated parameters; under the virtual clock, 1-4 concurrently retrying submissions with scripted outcomes and (scripted or exception) policies are checked for: non-overlapping attempts, start(k+1)-end(k) equal to the policy delay (+-0.01 s, only >= when workers are scarce), one policy consultation per finished attempt with attempt=1,2,.., sleep_time consulted iff retrying, exact invocation counts, no done state/callback before the final attempt ends, final outcome identity.",
        design_ref="DESIGN.md section 4 (C05)", note=ENGINE_NOTE),

    "C06": dict(
        category="exploration",
        technique="history-invariant property testing: exhaustive single-pre-emption sweeps of cancel-vs-hand-over/completion/retry-instant programs + Hypothesis-drawn stacks, cancel times and tapes; oracle = order predicates over the totally ordered event history (cancel return vs callable start vs delegate submit vs cancel arriving at the innermost future)",
        text="Stacks over a manual base with a recording tap below every layer (and combinator expressions over recording source futures) are cancelled from 1-3 threads at every life stage: queued, between retries, at the retry instant, during hand-over, running (callable blocked on a gate), being resolved. True => cancelled ever after and no invocation/delegate submit after the return; running => False and normal completion; retry => no delegate submit after any cancel() returned; the request reaches the innermost pending future except below f_nocancel.",
        design_ref="DESIGN.md section 4 (C06)", note=ENGINE_NOTE),

    "C17": dict(
        category="exploration", engine="plain",
        technique="differential property-based testing: operator on f_proxy(f_return(v)) vs operator on v over an enumerated value pool and Hypothesis-drawn recursive values; virtual-clock cases for the timeout clause",
        text="Every forwarded operator/conversion/attribute access is applied to the proxy and to a deep copy of the plain value; results must agree in type and value or in exception type. Failed inputs must surface their own exception; truth test/repr/str/==/hash/unknown dunders must return on a pending input; the timeout clause is decided under the virtual clock; f_nocancel is checked for every way its input can end. Exhaustive over the 33-value pool x all forwarded operators; sampled beyond.",
        design_ref="DESIGN.md section 4 (C17)", note=PLAIN_NOTE),
    "C07": dict(
        category="exploration",
        technique="model-based property testing: a FIFO queue/capacity model replayed over the recorded history of Hypothesis-drawn submit/complete/cancel programs (and exhaustive single-pre-emption sweeps of catalogue programs) under the deterministic scheduler with an exact virtual clock",
        text="ThrottleExecutor over a manual base (completion order is a program choice) or a thread pool, with a recording tap below it: at every hand-over the number handed to the delegate and not yet done must be <= the bound in force (static, or the recent values of a scripted count callable; None unlimited; a raise keeps the last value); delegate submissions follow submit order; whenever virtual time is about to advance nothing may be queued while capacity is free (so no +2 s/+30 s hand-overs); block=True submit() works for every count and is parked only while the queue holds >= count entries.",
        design_ref="DESIGN.md section 4 (C07)", note=ENGINE_NOTE),

    "C08": dict(
        category="exploration",
        technique="history-invariant property testing: Hypothesis-drawn poll/cancel-function scripts, completion, cancel and notify times with tapes, plus exhaustive single-pre-emption sweeps of same-instant programs, under the deterministic scheduler with an exact virtual clock; oracle = may/must descriptor sets, first-yield, raise-fails-shown, promptness and cancel-veto predicates over the totally ordered history",
        text="PollExecutor over a manual base (delegate completions are program steps): poll calls never overlap; every call's descriptor list is checked against what must be present (delegate finished and nothing resolved it before the call began), what must be absent (resolved by a yield or a successful cancel before the call began; failed/unfinished delegates), duplicates and result payloads; first yield wins; a raising call fails exactly its unresolved descriptors; a new eligibility or notify() is followed by a poll within 0.01 virtual seconds; the cancel function is consulted only in the polling stage with the delegate's result and False/raise vetoes. Two known findings (snapshot-to-invocation window) are excluded by signature.",
        design_ref="DESIGN.md section 4 (C08), section 7", note=ENGINE_NOTE),

    "C09": dict(
        category="exploration",
        technique="property-based testing with an exact virtual clock: Hypothesis-drawn sets of futures with mixed default/per-call timeouts, submission times, completions and user cancels (plus exhaustive single-pre-emption sweeps of catalogue programs); oracle = deadline windows over the recorded virtual times of every cancel() reaching the returned futures",
        text="TimeoutExecutor over a manual base (optionally behind a blocking throttle so that the delegate's submit() consumes time) and f_timeout through the shared executor: for each future with deadline window [delegate-submit-return, submit-return]+timeout, the timeout thread must not call cancel() before the window, must call it exactly once inside the window (+0.01 s) if the future is still pending, and not at all if it finished before; outcomes of futures finished in time are kept.",
        design_ref="DESIGN.md section 4 (C09)", note=ENGINE_NOTE + " cancel() calls on library futures are observed by wrapping _Future.cancel from the harness (lib/world.py), not by a source hook."),

    "C10": dict(
        category="exploration",
        technique="history-invariant property testing: exhaustive single-pre-emption sweeps of submit-vs-shutdown programs for each inner stack + Hypothesis-drawn programs (earlier futures pending/running/done, 1-3 racing submitters, resubmitting callbacks) with tapes and both clock modes; oracle = coverage of every returned future by the sweep, from the recorded cancel()/shutdown() calls",
        text="CancelOnShutdownExecutor with a recording tap directly below it, over manual / retry / poll / map / throttle / thread-pool inner stacks: when shutdown() has returned, every future any submit() returned that was not done by then has had cancel() invoked exactly once by the shutting-down thread (never twice), the wrapped executor saw exactly one shutdown() with the same wait argument after the last cancel, and every racing submit() either raised the documented RuntimeError or returned a covered future.",
        design_ref="DESIGN.md section 4 (C10)", note=ENGINE_NOTE + " cancel() calls are observed by wrapping Future.cancel/_Future.cancel from the harness."),

    "C11": dict(
        category="exploration",
        technique="history-invariant property testing: exhaustive single-pre-emption sweeps of shutdown-vs-submit/worker-loop programs per layer type + Hypothesis-drawn stacks, workloads, shutdown arguments and racing submitters with tapes and both clock modes; oracle = predicates over recorded submit results, delegate shutdown calls (taps) and thread exit bits",
        text="Stacks of up to 4 layers of every executor type (with_asyncio outermost included) over a manual or thread-pool base, with a recording tap below every layer, are shut down while idle, queued, between retries, polling or running, with 0-2 submitters racing: shutdown() must return; later submits raise exactly the documented RuntimeError; a second shutdown returns; every level down the chain saw exactly one shutdown with the same wait/cancel_futures arguments, inside the first shutdown call; with wait=True every thread the stack created has exited by the time shutdown() returns (the scheduler knows thread exit exactly); racing submits raise that error or return a future.",
        design_ref="DESIGN.md section 4 (C11)", note=ENGINE_NOTE),

    "C12": dict(
        category="exploration",
        technique="property-based testing under the deterministic scheduler with the cyclic GC switched off: exhaustive single-pre-emption sweeps of drop / exit-hook / shutdown programs per executor type + Hypothesis-drawn histories; oracle = thread exit bits of the scheduler and weak references to futures, callables, arguments and results; plus a small real-subprocess tier for a real interpreter exit",
        text="For retry/poll/throttle/timeout executors and stacks: after shutdown, after the last reference is dropped (nothing pending) or after the library's atexit hook ran - each landing at the same instant as other activity, with every single pre-emption placement - every worker thread must have exited; weak references to every finished-and-forgotten future, its callable, argument and result must be dead after gc while the executor lives on (histories include failures, cancels in flight, while queued and during a long back-off); a future still pending when its executor is dropped must complete. Real subprocesses must exit cleanly by themselves (time-out = inconclusive).",
        design_ref="DESIGN.md section 4 (C12)", note=ENGINE_NOTE + " The exit hook is exercised by calling the function the library registered with atexit; a real interpreter exit is covered only by the subprocess tier."),

    "C13": dict(
        category="exploration",
        technique="model-based + metamorphic property testing: exhaustive enumeration of (form x fn behaviour x error_fn behaviour x input outcome x timing) for single layers and reduced two-layer chains, Hypothesis-drawn chains up to 4 with tapes and racing output cancels, compared with the reference function of the statement; pure map chains compared with the single composed map",
        text="with_map/with_flat_map (sync or manual base) and f_map/f_flat_map: for every combination of input outcome (value, exception, cancelled from outside; done before, later, from another thread) and fn/error_fn behaviour (absent, return, raise new, re-raise same, return the exception, return a resolved/failed/cancelled/pending future, return truthy or falsy non-futures) the outcome, exception identity, preserved raise site in __traceback__ and the exact number of fn/error_fn calls must match lib/models.py; chains of pure maps must equal the composed map.",
        design_ref="DESIGN.md section 4 (C13)", note=ENGINE_NOTE),

    "C19": dict(
        category="exploration",
        technique="differential property-based testing: Hypothesis-drawn with_* chains split at a generated bind point, callables (function, partial, callable object, future-returning), arguments and name assignments; each case run in bind form and in submit form under the deterministic scheduler and compared",
        text="For random chains of all layer types (depth<=5) over sync/thread-pool bases, executor.bind(fn)/flat_bind(fn) followed by the remaining with_* calls and a call must give the same outcome and the same number of invocations of fn and of every layer function as the same chain built on the executor with submit(fn, *args) (flat_bind == bind + with_flat_map(identity)); every thread created while building either form must carry the name in force at its layer (base name or latest explicit name upstream).",
        design_ref="DESIGN.md section 4 (C19)", note=ENGINE_NOTE),

    "C14": dict(
        category="exploration",
        technique="model-based property testing: and/or fold over admissible linearisations of the completion events; exhaustive outcome x completion-order enumeration + Hypothesis-drawn concurrent completions under the deterministic scheduler",
        text="Input futures are completed (value/exception/cancel/never) in every order for n<=4 (thorough n<=5), with duplicates, f_nocancel wrappers, already-done inputs and a cancel of the output at every position, and concurrently from 2-3 threads under generated tapes. The output must equal the fold of a linearisation consistent with real time; losers must receive cancel() after the decision and never before; f_nocancel inputs never.",
        design_ref="DESIGN.md section 4 (C14)", note=ENGINE_NOTE),
    "C15": dict(
        category="exploration",
        technique="model-based property testing: position table + first-failure over admissible linearisations; exhaustive outcome x order enumeration + Hypothesis-drawn concurrent completions under the deterministic scheduler",
        text="f_zip/f_sequence/f_traverse inputs are completed in every order for n<=4 (thorough n<=5) incl. n=0, n=1000, duplicates, pre-done inputs, output cancels and fn raising at element k, and concurrently under generated tapes. Success must give position-wise results in the right container type; otherwise the first non-success of an admissible linearisation; an output cancel must reach every pending input; fn is called once per element in order.",
        design_ref="DESIGN.md section 4 (C15)", note=ENGINE_NOTE),
    "C16": dict(
        category="exploration",
        technique="model-based property testing: plain application as reference; exhaustive arity x completion-order enumeration with a non-commutative echo function + Hypothesis-drawn concurrent completions under the deterministic scheduler",
        text="For every split of up to 4 (random: 9) argument futures into positional and keyword, and every completion order of function future and arguments (plus failures/cancels/never at every position), the output must equal fn(*args, **kwargs) on the plain values, fn must be called exactly once and only after the last input was completed, and a failing input or fn must surface its exception.",
        design_ref="DESIGN.md section 4 (C16)", note=ENGINE_NOTE),

    "C20": dict(
        category="exploration",
        technique="model-based property testing: Hypothesis-drawn histories (submit / run / fail / cancel queued, between retries, in flight / timeout firing / shutdown) with metric samples at quiescent points, plus exhaustive single-pre-emption sweeps of gauge-update races, against a stand-in prometheus_client; oracle = gauge/counter values recomputed from the recorded history",
        text="With a stand-in prometheus_client on the import path (PrometheusMetrics live), metrics are sampled together with the state of every future at quiescent points: per-layer exec gauges/counters, future_inprogress/total/cancel/error, retry_queue, throttle_queue, retry_total, poll_total/poll_error, timeout and shutdown_cancel must equal the counts recomputed from the event history, and no gauge child may ever have gone below zero.",
        design_ref="DESIGN.md section 4 (C20)", note=ENGINE_NOTE + " prometheus_client itself is replaced by lib/standin/prometheus_client (the real package is not installable offline)."),

    "C18": dict(
        category="fault_enumeration",
        technique="fault-injection property testing: every user-code call site present in a Hypothesis-drawn stack is a fault point (callable at invocation k, map/error/flat_map fn for one submission, poll fn at call k, cancel fn, should_retry/sleep_time at attempt k, count callable at call k, first of several done-callbacks), combined with concurrent cancels and tapes; exhaustive single-pre-emption sweeps of per-site programs; oracle = locality w.r.t. the sequential reference model + probe submission + thread exit causes + captured logs",
        text="After each injected fault: futures not touched by it keep their reference outcome; the faulted future fails with exactly the injected exception object (or the fault is logged where the API says so); a probe submission made afterwards completes; the scheduler reports no library thread that ended with an exception; the captured log and the op results contain no library-internal exception (InvalidStateError, KeyError, AssertionError, AttributeError, TypeError ...) escaping a Future method, a worker thread or the stdlib callback invoker; every registered callback still runs exactly once.",
        design_ref="DESIGN.md section 4 (C18)", note=ENGINE_NOTE),
}

NOT_YET = {}


def main():
    props = [json.loads(l) for l in open(os.path.join(HERE, "properties.jsonl"))]
    checks = []
    na = []
    for p in props:
        pid = p["id"]
        c = CHECKS.get(pid)
        if c is None:
            na.append({"property_id": pid, "reason": NOT_YET.get(pid, "check not built yet (work in progress; planned design in DESIGN.md section 4)")})
            continue
        checks.append({
            "property_id": pid,
            "quick_cmd": "./check %s --tier quick" % pid,
            "thorough_cmd": "./check %s --tier thorough" % pid,
            "evidence_file": "/verif/evidence/%s.json" % pid,
            "replay_cmd_template": "./check %s --replay {path}" % pid,
            "engine": c.get("engine", "vsched"),
            "level_claimed": {"category": c["category"], "text": c["text"], "design_ref": c["design_ref"]},
            "level_note": c["note"],
            "technique": c["technique"],
        })
    m = {
        "version": 1,
        "setup_cmd": "/venv/bin/python -c 'import hypothesis' 2>/dev/null || /venv/bin/pip install --no-index --find-links /opt/veriftools/wheels hypothesis",
        "hooks": {
            "guard": "MORE_EXECUTORS_VERIF",
            "enable": "no source hooks: the engine interposes threading/time primitives from outside at import time (lib/vsched.py install())",
            "baseline_off_cmd": "cd /repo && /venv/bin/python -m pytest -ra -q -p no:cacheprovider --timeout=900 --continue-on-collection-errors",
            "source_commits": [],
            "add_only": True,
        },
        "engines": [
            {"name": "vsched", "path": "lib/vsched.py", "serves_properties": sorted(k for k, v in CHECKS.items() if v.get("engine", "vsched") == "vsched"),
             "kind_free_text": "deterministic scheduler + virtual clock for real Python threads; schedules are Hypothesis-drawn tapes or exhaustive placement sweeps"},
            {"name": "plain", "path": "lib/checks", "serves_properties": sorted(k for k, v in CHECKS.items() if v.get("engine") == "plain"),
             "kind_free_text": "Hypothesis / itertools enumeration against reference models, no scheduler"},
        ],
        "checks": checks,
        "not_applicable": na,
        "notes": "All checks: ./check <ID> --tier quick|thorough [--seed N] (VERIF_SEED honoured). Exit 0 held / 1 VIOLATION / 2 harness error. Known findings: known_findings.json.",
    }
    with open(os.path.join(HERE, "MANIFEST.json"), "w") as fh:
        json.dump(m, fh, indent=1)
    print("checks:", [c["property_id"] for c in checks], "not_applicable:", len(na))


if __name__ == "__main__":
    sys.path.insert(0, os.path.join(HERE, "tools"))
    main()
