#!/usr/bin/env python3
"""Regenerate MANIFEST.json from the table below (run from /verif)."""
import json, os, sys

HERE = os.path.dirname(os.path.dirname(os.path.abspath(__file__)))
ENGINE_NOTE = ("Trusted base: CPython 3.12.1, Hypothesis 6.168, the vsched engine (single-baton scheduler, dual-mode "
               "controlled primitives, sys.monitoring line events) and the program interpreter in lib/world.py. "
               "Explored executions are feasible executions of the unmodified library under a line-granular "
               "pre-emption model with an idealised (discrete-event) clock; absence is claimed only for the "
               "enumerated sub-domains listed in the evidence.")
PLAIN_NOTE = ("Trusted base: CPython 3.12.1, Hypothesis 6.168 and the reference model in the check module. "
              "Inputs are generated values/outcome assignments/completion orders; no claim beyond the generated domain.")

CHECKS = {
    "C04": dict(
        category="exploration",
        technique="property-based testing over (program, schedule) pairs: exhaustive single-pre-emption sweeps + Hypothesis-drawn programs/tapes under a deterministic scheduler; oracle = wait-for-graph cycle / stuck client",
        text="Generated client programs (<=3 threads, stacks <=4 deep, nested submissions from every user-code site) are run against the unmodified library under a deterministic scheduler that pre-empts at every library source line; a wait-for cycle, a stuck client or a client still inside an API call after 10^4 virtual seconds is a violation. Exhaustive over single pre-emption placements of the catalogue programs; sampled elsewhere.",
        design_ref="DESIGN.md section 4 (C04), section 2",
        note=ENGINE_NOTE),
}

NOT_YET = {}


def main():
    props = [json.loads(l) for l in open(os.path.join(HERE, "properties.jsonl"))]
    checks = []
    na = []
    for p in props:
        pid = p["id"]
        c = CHECKS.get(pid)
        if c is None:
            na.append({"property_id": pid, "reason": NOT_YET.get(pid, "check not built yet (work in progress; planned design in DESIGN.md section 4)")})
            continue
        checks.append({
            "property_id": pid,
            "quick_cmd": "./check %s --tier quick" % pid,
            "thorough_cmd": "./check %s --tier thorough" % pid,
            "evidence_file": "/verif/evidence/%s.json" % pid,
            "replay_cmd_template": "./check %s --replay {path}" % pid,
            "engine": c.get("engine", "vsched"),
            "level_claimed": {"category": c["category"], "text": c["text"], "design_ref": c["design_ref"]},
            "level_note": c["note"],
            "technique": c["technique"],
        })
    m = {
        "version": 1,
        "setup_cmd": "/venv/bin/python -c 'import hypothesis' 2>/dev/null || /venv/bin/pip install --no-index --find-links /opt/veriftools/wheels hypothesis",
        "hooks": {
            "guard": "MORE_EXECUTORS_VERIF",
            "enable": "no source hooks: the engine interposes threading/time primitives from outside at import time (lib/vsched.py install())",
            "baseline_off_cmd": "cd /repo && /venv/bin/python -m pytest -ra -q -p no:cacheprovider --timeout=900 --continue-on-collection-errors",
            "source_commits": [],
            "add_only": True,
        },
        "engines": [
            {"name": "vsched", "path": "lib/vsched.py", "serves_properties": sorted(k for k, v in CHECKS.items() if v.get("engine", "vsched") == "vsched"),
             "kind_free_text": "deterministic scheduler + virtual clock for real Python threads; schedules are Hypothesis-drawn tapes or exhaustive placement sweeps"},
            {"name": "plain", "path": "lib/checks", "serves_properties": sorted(k for k, v in CHECKS.items() if v.get("engine") == "plain"),
             "kind_free_text": "Hypothesis / itertools enumeration against reference models, no scheduler"},
        ],
        "checks": checks,
        "not_applicable": na,
        "notes": "All checks: ./check <ID> --tier quick|thorough [--seed N] (VERIF_SEED honoured). Exit 0 held / 1 VIOLATION / 2 harness error. Known findings: known_findings.json.",
    }
    with open(os.path.join(HERE, "MANIFEST.json"), "w") as fh:
        json.dump(m, fh, indent=1)
    print("checks:", [c["property_id"] for c in checks], "not_applicable:", len(na))


if __name__ == "__main__":
    sys.path.insert(0, os.path.join(HERE, "tools"))
    main()
