#!/bin/bash
# usage: tools/runall.sh [tier] [seed] [IDs...]  -- run registered checks, print one summary line each
TIER=${1:-quick}; SEED=${2:-1}; shift 2
IDS="$@"; [ -z "$IDS" ] && IDS=$(python3 -c "import json; print(' '.join(c['property_id'] for c in json.load(open('/verif/MANIFEST.json'))['checks']))")
cd /verif
for ID in $IDS; do
  OUT=$(./check $ID --tier $TIER --seed $SEED 2>&1); RC=$?
  echo "$ID rc=$RC $(echo "$OUT" | grep "^$ID tier" | sed 's/.*evaluations/evaluations/')"
  echo "$OUT" | grep "VIOLATION\|KNOWN-FINDING\|HARNESS" | head -5
done
