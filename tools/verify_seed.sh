#!/bin/bash
# usage: tools/verify_seed.sh <seed-dir-name e.g. C04-1>
# Independently confirms a seeded change: applies to a scratch worktree of /repo HEAD, runs the repo's test suite,
# runs the demo against the unchanged tree (must exit 0) and the changed tree (must exit non-zero).
N="$1"; SRC=/tmp/seedout/$N; WT=/tmp/wt/verify-$N; OUT=/tmp/seedout/$N/verify.log
rm -rf "$WT"; git -C /repo worktree prune
git -C /repo worktree add -q --detach "$WT" HEAD || exit 2
cd "$WT"
{
echo "base commit: $(git rev-parse --short HEAD)"
if git apply --check "$SRC/patch.diff" 2>/dev/null; then git apply "$SRC/patch.diff"; echo "apply: clean";
elif git apply --3way "$SRC/patch.diff" 2>/dev/null; then echo "apply: 3way"; else echo "apply: FAILED"; fi
git --no-pager diff --stat
echo "--- demo on unchanged /repo:"; timeout 120 /venv/bin/python "$SRC/demo.py" /repo >/dev/null 2>&1; echo "exit=$?"
echo "--- demo on changed tree:"; timeout 120 /venv/bin/python "$SRC/demo.py" "$WT" >/dev/null 2>&1; echo "exit=$?"
echo "--- test suite on changed tree:"; /venv/bin/python -m pytest -q -p no:cacheprovider --timeout=900 --ignore=tests/types -x 2>&1 | tail -3
} > "$OUT" 2>&1
git -C "$WT" diff > /tmp/seedout/$N/patch.rebased.diff
cd /; git -C /repo worktree remove --force "$WT"
echo "$N done"; cat "$OUT" | grep -v "^$" | head -30
