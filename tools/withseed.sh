#!/bin/bash
# usage: tools/withseed.sh <patch-file> <command...>   -- runs the command with VERIF_REPO pointing at a scratch worktree of /repo HEAD + patch
P="$1"; shift
WT=/tmp/wt/withseed-$$
git -C /repo worktree add -q --detach "$WT" HEAD || exit 2
git -C "$WT" apply "$P" 2>/dev/null || git -C "$WT" apply --3way "$P" 2>/dev/null || { echo "PATCH DOES NOT APPLY"; git -C /repo worktree remove --force "$WT"; exit 2; }
VERIF_REPO="$WT" "$@"; rc=$?
git -C /repo worktree remove --force "$WT"
exit $rc
