"""C12 - worker threads and references are reclaimed; pending futures keep working."""
import os
import sys
import subprocess

import harness

PROPERTY = "C12"
LEVEL = "exploration"
RULE = (
    "cases = (retry / poll / throttle / timeout executors and two-layer stacks of them over sync, thread-pool or manual bases; a "
    "history of submissions that complete, fail, are cancelled in flight, cancelled while queued in a throttle or cancelled between "
    "retries during a long back-off, each with weakref-able callable, argument and result objects; then one of: forget every finished "
    "future + gc (executor stays alive), shutdown(wait=False), dropping the last reference to the executor with or without a pending "
    "future, or the library's atexit hook - issued at the same virtual instant as other activity so that it lands while the worker loop "
    "holds its strong reference or sits between its check and its wait; tape; cyclic GC off except where the program says gc). "
    "Enumerated: per executor type the drop / exit-hook / shutdown programs with every single pre-emption placement. Oracle: after "
    "settling, every worker thread of a shut-down, dropped (nothing pending) or exit-hooked executor has exited (scheduler exit bits); "
    "weak references to every finished-and-forgotten future, its callable, its argument and its result are dead while the executor "
    "lives on; a future still pending when its executor was dropped completes with the right outcome. Tier X: generated configurations "
    "run in real subprocesses must exit by themselves without a traceback (a time-out there is inconclusive). Non-trivial = a drop / "
    "exit / shutdown at the instant of other activity, or a history containing a cancel. Distinct = digest of the case."
)
ASSUMPTIONS = ["user functions do not reference the executor (stated by the property)",
               "a FAILED future that the user still holds counts as a user reference to the executor: its exception's traceback keeps the "
               "frames that ran the callable, and with an inline (sync) delegate those are the worker's own frames whose locals include the "
               "executor (CPython semantics, confirmed with real threads) - 'drop' programs therefore hold completed and cancelled futures only",
               "the harness itself holds no strong references after 'forget' (events store names and JSON summaries only)"]

WORKER = ("RetryExecutor", "PollExecutor", "ThrottleExecutor", "TimeoutExecutor")


def layer(kind):
    return {
        "retry": {"kind": "retry", "policy": {"type": "exc", "max_attempts": 3, "sleep": 30.0, "exponent": 1.0, "base": ["E0"]}},
        "retry-fast": {"kind": "retry", "policy": {"type": "exc", "max_attempts": 3, "sleep": 0.25, "exponent": 1.0, "base": ["E0"]}},
        "poll": {"kind": "poll", "interval": 0.5, "per_sub": {}},
        "throttle": {"kind": "throttle", "count": 1},
        "timeout": {"kind": "timeout", "t": 50.0},
        "map": {"kind": "map", "fn": [["app", "m"]], "err": None},
    }[kind]


def sub(name, script, obj=True):
    return ["submit", "ex", name, {"script": script, "objarg": obj}]


def ends(action, pending):
    """The closing act + observations."""
    if action == "forget":
        return [["gc"], ["alive"], ["threads"]]
    if action == "shutdown":
        return [["shutdown", "ex", False], ["sleep", 1.0], ["threads"]]
    if action == "drop":
        return [["drop_ex", "ex"], ["gc"], ["sleep", 1.0], ["gc"], ["threads"]]
    if action == "exit":
        return [["exit_hook"], ["sleep", 1.0], ["threads"], ["exit_hook_reset"]]
    raise ValueError(action)


def catalog():
    out = {}
    for kind in ("retry-fast", "poll", "throttle", "timeout"):
        for base in ("sync", "manual"):
            b = {"kind": base}
            for action in ("drop", "exit", "shutdown"):
                # the closing act falls on the instant at which a submission is being processed by the worker
                t0 = [["sleep", 0.5], sub("f0", [["retobj"]]), ["result", "f0", 5], ["forget", "f0"]]
                t1 = [["sleep", 0.5]] + ([["runall", "ex"]] if base == "manual" else [])
                t2 = [["sleep", 0.5], ["sleep", 0.0]] + ends(action, False)
                if action == "drop" or base == "manual":
                    # (the worker may only exit if nothing is pending, and the submitting thread must be done with the executor)
                    t0 = [["sleep", 0.25], sub("f0", [["retobj"]])] + ([["sleep", 0.01], ["runall", "ex"]] if base == "manual" else []) + [["result", "f0", 5], ["forget", "f0"], ["forget_base"]]
                    t1 = [["sleep", 0.5]]
                out["%s/%s/%s" % (action, kind, base)] = {"action": action, "prog": {
                    "setup": [["build", "ex", {"base": b, "layers": [layer(kind)]}], ["sleep", 0.1]],
                    "threads": [t0, t1, t2], "settle": 1, "final": [["gc"], ["alive"], ["threads"]]}}
    # references after completion / failure / cancel, executor alive (long back-off: the worker is asleep while we look)
    out["refs/retry-between-retries"] = {"action": "forget", "prog": {
        "setup": [["build", "ex", {"base": {"kind": "sync"}, "layers": [layer("retry")]}]],
        "threads": [[sub("f0", [["raise", "E0"], ["retobj"]]), sub("f1", [["retobj"]]), sub("f2", [["raise", "E2"]]), ["sleep", 1.0], ["cancel", "f0"],
                     ["forget", "f0"], ["forget", "f1"], ["forget", "f2"], ["gc"], ["alive"], ["threads"]]],
        "settle": 1, "final": []}}
    out["refs/retry-in-flight-cancel"] = {"action": "forget", "prog": {
        "setup": [["build", "ex", {"base": {"kind": "manual"}, "layers": [layer("retry")]}]],
        "threads": [[sub("f0", [["retobj"]]), sub("f1", [["retobj"]]), ["sleep", 0.5], ["cancel", "f0"], ["run", "ex", 1],
                     ["forget", "f0"], ["forget", "f1"], ["forget_base"], ["gc"], ["alive"], ["threads"]]],
        "settle": 1, "final": []}}
    out["refs/throttle-queued-cancel"] = {"action": "forget", "prog": {
        "setup": [["build", "ex", {"base": {"kind": "manual"}, "layers": [layer("throttle")]}]],
        "threads": [[sub("f0", [["retobj"]]), sub("f1", [["retobj"]]), sub("f2", [["raise", "E2"]]), ["sleep", 0.5], ["cancel", "f1"], ["run", "ex", 0], ["sleep", 0.1],
                     ["runall", "ex"], ["sleep", 0.1], ["forget", "f0"], ["forget", "f1"], ["forget", "f2"], ["forget_base"], ["gc"], ["alive"], ["threads"]]],
        "settle": 1, "final": []}}
    out["refs/poll+timeout"] = {"action": "forget", "prog": {
        "setup": [["build", "ex", {"base": {"kind": "manual"}, "layers": [layer("poll"), layer("timeout")]}]],
        "threads": [[sub("f0", [["retobj"]]), sub("f1", [["retobj"]]), ["sleep", 0.5], ["run", "ex", 0], ["sleep", 1.0], ["cancel", "f1"],
                     ["forget", "f0"], ["forget", "f1"], ["forget_base"], ["sleep", 0.1], ["gc"], ["alive"], ["threads"]]],
        "settle": 1, "final": []}}
    # an executor is created while the event of an older, dropped executor is being collected (the handler's list of events is
    # rebuilt by a weakref callback at that moment); the exit hook must still reach the new executor's idle worker
    for kind in ("retry-fast", "timeout"):
        out["exit/new-executor-while-old-event-is-collected/" + kind] = {"action": "exit", "prog": {
            "setup": [["build", "old", {"base": {"kind": "sync"}, "layers": [layer(kind)]}], ["sleep", 0.1]],
            "threads": [[["sleep", 0.5], ["drop_ex", "old"], ["gc"]],
                        [["sleep", 0.5], ["build", "ex", {"base": {"kind": "sync"}, "layers": [layer(kind)]}]],
                        [["sleep", 2.0]] + ends("exit", False)],
            "settle": 1, "final": [["threads"]]}}
    # an OLDER executor is dropped (its worker exits, its event is collected and the handler's list updated) while the exit hook
    # is walking that list: the hook must still reach every later executor's idle worker
    for kind in ("retry-fast", "timeout", "throttle"):
        out["exit/older-executor-dropped-while-hook-runs/" + kind] = {"action": "exit", "focus_hook": True, "prog": {
            "setup": [["build", "old", {"base": {"kind": "sync"}, "layers": [layer(kind)]}],
                      ["build", "ex", {"base": {"kind": "sync"}, "layers": [layer(kind)]}],
                      ["build", "ex2", {"base": {"kind": "sync"}, "layers": [layer(kind)]}], ["sleep", 0.1]],
            "threads": [[["sleep", 0.5]] + ends("exit", False),
                        [["sleep", 0.5], ["drop_ex", "old"], ["gc"]]],
            "settle": 1, "final": [["threads"]]}}
    # cancel() of a polled future at the very instant its delegate completes (registration for polling vs cancel)
    out["refs/poll-cancel-at-registration"] = {"action": "forget", "prog": {
        "setup": [["build", "ex", {"base": {"kind": "manual"}, "layers": [dict(layer("poll"), per_sub={"f0.fn": {"after": None}, "f1.fn": {"after": None}}, cancel=[["ret", True]])]}],
                  sub("f0", [["retobj"]]), sub("f1", [["retobj"]]), ["sleep", 0.1]],
        "threads": [[["sleep", 0.5], ["run", "ex", 0], ["run", "ex", 1]], [["sleep", 0.5], ["cancel", "f0"], ["cancel", "f1"]],
                    [["sleep", 1.5], ["cancel", "f0"], ["cancel", "f1"], ["sleep", 0.1], ["forget", "f0"], ["forget", "f1"], ["forget_base"], ["sleep", 0.6], ["gc"], ["alive"], ["threads"]]],
        "settle": 1, "final": []}}
    # finished futures the user still HOLDS must not keep the executor (and so its worker) alive after it is dropped:
    # completed, failed, cancelled between retries / while queued / in the polling stage / in flight
    held = {
        "retry": ({"kind": "sync"}, [layer("retry")],
                  [sub("f0", [["raise", "E0"], ["retobj"]]), sub("f1", [["retobj"]]), sub("f2", [["raise", "E2"]]), ["sleep", 1.0], ["cancel", "f0"], ["forget", "f2"]]),
        "retry-in-flight": ({"kind": "manual"}, [layer("retry")],
                            [sub("f0", [["retobj"]]), sub("f1", [["retobj"]]), ["sleep", 0.5], ["cancel", "f0"], ["run", "ex", 1], ["sleep", 0.1]]),
        "throttle": ({"kind": "manual"}, [layer("throttle")],
                     [sub("f0", [["retobj"]]), sub("f1", [["retobj"]]), ["sleep", 0.5], ["cancel", "f1"], ["run", "ex", 0], ["sleep", 0.1], ["runall", "ex"], ["sleep", 0.1]]),
        "poll": ({"kind": "manual"}, [dict(layer("poll"), per_sub={"f1.fn": {"after": None}})],
                 [sub("f0", [["retobj"]]), sub("f1", [["retobj"]]), ["sleep", 0.25], ["runall", "ex"], ["sleep", 1.0], ["cancel", "f1"], ["sleep", 0.1]]),
        "timeout": ({"kind": "manual"}, [layer("timeout")],
                    [sub("f0", [["retobj"]]), sub("f1", [["retobj"]]), ["sleep", 0.25], ["run", "ex", 0], ["cancel", "f1"], ["sleep", 0.1]]),
        "retry+timeout": ({"kind": "manual"}, [layer("retry"), layer("timeout")],
                          [sub("f0", [["raise", "E0"], ["retobj"]]), sub("f1", [["retobj"]]), ["sleep", 0.25], ["runall", "ex"], ["sleep", 1.0], ["cancel", "f0"], ["sleep", 0.1]]),
    }
    for kind, (b, layers, hist) in sorted(held.items()):
        out["drop-held/" + kind] = {"action": "drop", "prog": {
            "setup": [["build", "ex", {"base": b, "layers": layers}]],
            "threads": [hist + [["state", "f0"], ["state", "f1"], ["forget_base"]] + ends("drop", False)],
            "settle": 1, "final": [["threads"]]}}
    # a pending future outlives its executor
    for kind in ("retry-fast", "poll", "throttle", "timeout", "map"):
        out["pending-after-drop/" + kind] = {"action": "drop-pending", "prog": {
            "setup": [["build", "ex", {"base": {"kind": "manual"}, "layers": [layer(kind)]}]],
            "threads": [[sub("f0", [["raise", "E0"], ["tag"]] if kind == "retry-fast" else [["tag"]], obj=False), ["sleep", 0.1], ["grab_base", "ex", "mb"], ["drop_ex", "ex"], ["gc"],
                         ["sleep", 0.5], ["runbase", "mb"], ["sleep", 1.0], ["runbase", "mb"], ["sleep", 1.0], ["state", "f0"], ["forget", "f0"], ["forget_base"], ["drop_base", "mb"], ["gc"],
                         ["sleep", 1.0], ["gc"], ["threads"]]],
            "settle": 1, "final": []}}
    return out


def evaluate(case):
    import progs
    import world
    prog = case["prog"]
    s, w = progs.run_case(case)
    info = {"end": s.end_reason, "steps": s.steps, "preemptions": s.preemptions}
    viols = []
    key = case.get("entry", "random").rsplit("/", 1)[0] if case.get("entry") else case.get("sigkey", "random")

    def bad(sig, **d):
        viols.append({"signature": "C12:%s:%s" % (sig, key), "detail": d})

    if s.end_reason != "done":
        if s.end_reason == "steps":
            info["inconclusive"] = True
        else:
            bad("run-ended-%s" % s.end_reason, stuck=getattr(s, "stuck_clients", None))
        return viols, info
    h = world.History(s, w)
    ops = h.oplist()
    action = case.get("action")
    hook = [o for o in ops if o["op"][0] == "exit_hook" and o["ret_seq"]]
    if hook:
        # scheduling points of this run between which the exit hook was at work (for the focused double sweep)
        info["hook_steps"] = (s.ev_steps[hook[0]["call_seq"] - 1], s.ev_steps[hook[0]["ret_seq"] - 1])
    # references
    forgotten = [o["op"][1] for o in ops if o["op"][0] == "forget" and o["result"] == ["ok", True]]  # done when forgotten
    for o in ops:
        if o["op"][0] == "alive" and o["result"][0] == "ok":
            if any(p["op"][0] in ("shutdown", "exit_hook") and p["call_seq"] < o["call_seq"] for p in ops):
                continue  # the clause is about an executor that lives on, not one that was shut down
            fg = [f for f in forgotten if any(p["op"] == ["forget", f] and p["ret_seq"] < o["call_seq"] for p in ops)]
            for lab, alive in o["result"][1].items():
                f = lab.split(".")[0].split(":")[-1]
                if alive and f in fg:
                    bad("reference-retained:%s" % lab.split(".")[-1].split(":")[0], label=lab)
    # threads
    last_threads = [o for o in ops if o["op"][0] == "threads" and o["result"][0] == "ok"]
    if last_threads:
        alive = [n for n in last_threads[-1]["result"][1] if n.split("-")[0] in WORKER]
        still_pending = sorted(n for n, f in w.futs.items() if f is not None and not f.done()) if action == "drop" else []
        if still_pending:
            # (a schedule in which a cancel() was refused left a future pending: it rightly keeps its executor going)
            info["drop_with_pending"] = still_pending
        elif action in ("shutdown", "drop", "exit", "drop-pending") and alive:
            bad("worker-alive-after-%s" % action, alive=alive)
        if action == "forget" and not alive:
            bad("worker-gone-although-executor-alive")
    # pending future completed after its executor was dropped
    if action == "drop-pending":
        st = [o["result"][1] for o in ops if o["op"][0] == "state" and o["result"][0] == "ok"]
        if not st or not st[-1]["done"] or st[-1]["cancelled"] or "value" not in st[-1]:
            bad("pending-future-not-completed-after-drop", state=st[-1] if st else None)
    info["nt"] = True
    return viols, info


def account(ctx, case, viols, info, extra=()):
    if info.get("inconclusive"):
        ctx.inconclusive += 1
    cls = ["end:" + info["end"], "action:%s" % case.get("action"), "preempt:%d" % min(info.get("preemptions", 0), 3)] + list(extra)
    if info.get("drop_with_pending"):
        cls.append("drop:a-future-was-still-pending(worker-may-live)")
    nt = info.get("preemptions", 0) >= 1 or case.get("action") in ("forget", "drop-pending")
    ctx.case(case, nt, cls, sample={"case": case})
    new = False
    for v in viols:
        if ctx.violation(v["signature"], case, v["detail"]):
            new = True
    return new


def case_strategy():
    from hypothesis import strategies as st
    import gen

    @st.composite
    def cases(draw):
        kinds = draw(st.lists(st.sampled_from(["retry", "retry-fast", "poll", "throttle", "timeout", "map"]), min_size=1, max_size=2))
        if not any(k in ("retry", "retry-fast", "poll", "throttle", "timeout") for k in kinds):
            kinds.append("poll")
        base = draw(st.sampled_from(["sync", "manual", "manual"]))
        n = draw(st.integers(1, 4))
        t0 = []
        names = []
        for i in range(n):
            f = "f%d" % i
            names.append(f)
            t0.append(sub(f, draw(st.sampled_from([[["retobj"]], [["retobj"]], [["raise", "E2"]], [["raise", "E0"], ["retobj"]]]))))
        t0.append(["sleep", 0.25])
        for _ in range(draw(st.integers(0, 4))):
            t0.append(draw(st.sampled_from([["runall", "ex"], ["run", "ex", draw(st.integers(0, n))], ["cancel", draw(st.sampled_from(names))], ["sleep", 0.5]])))
        action = draw(st.sampled_from(["forget", "forget", "shutdown", "exit", "drop"]))
        # finish everything so that "forget" is meaningful: cancel what is still pending
        t0 += [["runall", "ex"], ["sleep", 1.0]] if base == "manual" else [["sleep", 1.0]]
        for f in names:
            t0.append(["cancel", f])
        t0.append(["sleep", 0.1])
        for f, op in zip(names, [o for o in t0 if o[0] == "submit"]):
            # "drop": the user keeps holding the finished futures and drops the executor - except failed ones, whose
            # traceback references the frames that ran the callable (with an inline base: the worker's own frames, whose
            # locals include the executor), which makes a held failed future a user reference to the executor
            if action != "drop" or any(b[0] == "raise" for b in op[3]["script"]):
                t0.append(["forget", f])
        t0.append(["forget_base"])
        t0 += ends(action, False)
        prog = {"setup": [["build", "ex", {"base": {"kind": base}, "layers": [layer(k) for k in kinds]}]], "threads": [t0], "settle": 1,
                "final": [["gc"], ["alive"]]}
        return {"prog": prog, "action": action, "sigkey": "random:" + "+".join(sorted(set(kinds))), "tape": draw(gen.tapes(6)), "clock": "exact", "max_vtime": 400}

    return cases()


# ----------------------------------------------------------------------------- tier X: real interpreter exit
EXIT_PROBE = r'''
import sys, threading
sys.path.insert(0, sys.argv[1])
from more_executors import Executors
kind = sys.argv[2]
ev = threading.Event()
base = Executors.thread_pool(max_workers=2)
ex = {"retry": lambda: base.with_retry(max_attempts=3, sleep=0.05), "poll": lambda: base.with_poll(lambda ds: [d.yield_result(d.result) for d in ds], default_interval=0.05),
      "throttle": lambda: base.with_throttle(1), "timeout": lambda: base.with_timeout(30.0),
      "all": lambda: base.with_retry(max_attempts=2, sleep=0.05).with_throttle(2).with_timeout(30.0).with_poll(lambda ds: [d.yield_result(d.result) for d in ds], default_interval=0.05)}[kind]()
fs = [ex.submit(lambda i=i: i) for i in range(5)]
print([f.result(20) for f in fs])
if len(sys.argv) > 3 and sys.argv[3] == "pending":
    pend = ex.submit(ev.wait, 0.5)
# fall off the end without shutdown: the interpreter must exit by itself
'''


def run_exit_tier(spec, ctx):
    import tempfile
    d = os.path.join(harness.VERIF, "evidence", ".work")
    os.makedirs(d, exist_ok=True)
    path = os.path.join(d, "c12_exit_probe_%d.py" % os.getpid())
    with open(path, "w") as fh:
        fh.write(EXIT_PROBE)
    try:
        for kind in spec["kinds"]:
            for mode in ("idle", "pending"):
                case = {"tierX": [kind, mode]}
                try:
                    p = subprocess.run([sys.executable, path, harness.REPO, kind, mode], capture_output=True, text=True, timeout=90,
                                       env=dict(os.environ, MORE_EXECUTORS_PROMETHEUS="0"))
                except subprocess.TimeoutExpired:
                    ctx.inconclusive += 1
                    ctx.case(case, True, ["tierX:timeout(inconclusive)"], sample={"case": case, "result": "time budget exceeded - inconclusive"})
                    continue
                ctx.case(case, True, ["tierX:exit"], sample={"case": case, "returncode": p.returncode, "stderr_tail": p.stderr[-200:]})
                if p.returncode != 0 or "Traceback" in p.stderr or "Exception" in p.stderr:
                    ctx.violation("C12:interpreter-exit-not-clean:%s" % kind, case, {"returncode": p.returncode, "stderr": p.stderr[-1500:]})
    finally:
        try:
            os.remove(path)
        except OSError:
            pass


def shards(tier, seed):
    cat = sorted(catalog())
    specs = []
    per = 2 if tier == "quick" else 1
    for i in range(0, len(cat), per):
        specs.append({"mode": "sweep", "entries": cat[i:i + per], "double": tier == "thorough"})
    specs.append({"mode": "exit", "kinds": ["retry", "poll", "throttle"]})
    specs.append({"mode": "exit", "kinds": ["timeout", "all"]})
    n = 250 if tier == "quick" else 4000
    return specs + [{"mode": "random", "seed": seed * 1000 + i, "n": n} for i in range(8)]


def run_shard(spec, ctx):
    if spec["mode"] == "exit":
        run_exit_tier(spec, ctx)
        return
    import progs
    if spec["mode"] == "sweep":
        cat = catalog()
        for name in spec["entries"]:
            ent = cat[name]
            progs.sweep(ctx, ent["prog"], name, evaluate, account, double=spec.get("double"), extra={"entry": name, "action": ent["action"], "max_vtime": 400},
                        double_in="hook_steps" if ent.get("focus_hook") else None)
    else:
        progs.random_search(ctx, spec, case_strategy(), evaluate, account)


def replay(case):
    if "tierX" in case:
        ctx = harness.ShardCtx({}, [])
        run_exit_tier({"kinds": [case["tierX"][0]]}, ctx)
        return [{"signature": s, "detail": v["detail"]} for s, v in ctx._viol.items()]
    viols, info = evaluate(case)
    return viols
