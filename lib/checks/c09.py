"""C09 - timeouts fire exactly once, never early, and at the deadline."""
import harness
import progs
import world

PROPERTY = "C09"
LEVEL = "exploration"
RULE = (
    "cases = (TimeoutExecutor over a manual base, optionally with a blocking throttle in between so that the delegate's submit() "
    "itself takes virtual time, or over a retry layer on a 2-worker thread pool whose attempts take virtual time and fail (so a future alternates between running and pending-in-back-off), or f_timeout over recording source futures through the shared executor; 1-6 futures with default and "
    "per-call timeouts from {0.25..8 s} submitted at generated virtual times from 1-3 threads; a completer finishing some before / at / "
    "after their deadlines, some never; user cancels; tape; exact clock). Enumerated: catalogue programs (shorter timeout arriving "
    "while the worker sleeps on a longer one, completion / user cancel || partition, concurrent first f_timeout calls) with every "
    "single pre-emption placement. Oracle per future with deadline window [delegate-submit-return, submit-return] + timeout: no "
    "cancel() from the timeout thread before the window; if still pending at the deadline exactly one arrives, inside the window "
    "(+0.01 s); none if it finished before; outcomes of futures finished in time are kept. One of the catalogue programs is swept once more with every bytecode instruction of timeout.py as a scheduling point. Non-trivial = >=2 distinct deadlines with "
    "a shorter one submitted while the worker sleeps on a longer one, or a completion within one tick of a deadline. Distinct = digest of the case."
)
ASSUMPTIONS = ["exact clock mode; tolerance 0.01 s; a completion at exactly the deadline instant may go either way"]
EPS = 1e-2
TAP = "ex.tap"


def stack(default, throttled=None):
    layers = []
    if throttled:
        layers.append({"kind": "throttle", "count": throttled, "block": True})
    layers.append({"kind": "timeout", "t": default, "tap": True})
    return ["build", "ex", {"base": {"kind": "manual"}, "layers": layers}]


def retry_stack(default, backoff):
    return ["build", "ex", {"base": {"kind": "pool", "workers": 2}, "layers": [
        {"kind": "retry", "policy": {"type": "exc", "max_attempts": 4, "sleep": backoff}}, {"kind": "timeout", "t": default, "tap": True}]}]


def sub(name, timeout=None, script=None):
    d = {"script": script or [["tag"]]}
    if timeout is not None:
        d["timeout"] = timeout
    return ["submit", "ex", name, d]


def catalog():
    out = {}
    out["O1/short-after-long"] = {"default": 8.0, "prog": {
        "setup": [stack(8.0)],
        "threads": [[sub("f0"), ["sleep", 0.5], sub("f2", 1.0)], [["sleep", 1.0], sub("f1", 2.0), ["sleep", 0.25], sub("f3", 0.25)]],
        "settle": 9.0, "final": [["state", "f0"], ["state", "f1"], ["state", "f2"], ["state", "f3"]]}}
    out["O2/completion-vs-partition"] = {"default": 1.0, "prog": {
        "setup": [stack(1.0)],
        "threads": [[sub("f0"), sub("f1", 2.0), sub("f2", 3.0)], [["sleep", 1.0], ["run", "ex", 1], ["sleep", 1.0], ["run", "ex", 2]],
                    [["sleep", 2.0], ["cancel", "f2"]]],
        "settle": 4.0, "final": [["state", "f0"], ["state", "f1"], ["state", "f2"]]}}
    out["O3/many-same-deadline"] = {"default": 1.0, "prog": {
        "setup": [stack(1.0)],
        "threads": [[sub("f0"), sub("f1"), sub("f2")], [sub("f3"), ["run", "ex", 0], sub("f4", 0.5)], [["sleep", 0.5], sub("f5", 0.5)]],
        "settle": 3.0, "final": [["state", "f%d" % i] for i in range(6)]}}
    out["O4/blocking-delegate-submit"] = {"default": 1.0, "throttled": 1, "prog": {
        "setup": [stack(1.0, 1)],
        "threads": [[sub("f0"), sub("f1"), sub("f2")], [["sleep", 0.75], ["run", "ex", 0]]],
        "settle": 4.0, "final": [["state", "f0"], ["state", "f1"], ["state", "f2"]]}}
    # a cancel attempt that takes (virtual) time and is refused: the next deadline must still be met
    out["O5/slow-refused-cancel"] = {"default": 0.3, "prog": {
        "setup": [["build", "ex", {"base": {"kind": "manual"}, "layers": [
            {"kind": "poll", "interval": 50.0, "per_sub": {"f0.fn": {"after": None}}, "cancel": [["vsleep", 3.0, ["ret", False]]]},
            {"kind": "timeout", "t": 0.3, "tap": True}]}]],
        # (no deadline falls inside the 0.3 .. 3.3 s during which the single timeout thread sits in the user's slow cancel function)
        "threads": [[sub("f0"), sub("f1", 4.0), ["sleep", 0.1], ["run", "ex", 0]]],
        "settle": 9.0, "final": [["state", "f0"], ["state", "f1"]]}}
    # a future that is running() when the worker last looked, and later is pending again (retry back-off) at its deadline
    out["O6/running-then-backoff-at-deadline"] = {"default": 1.0, "prog": {
        "setup": [retry_stack(1.0, 20.0)],
        "threads": [[sub("f0", None, [["vsleep", 0.4, ["raise", "E0"]], ["tag"]]), ["sleep", 0.2], sub("f1")]],
        "settle": 4.0, "final": [["state", "f0"], ["state", "f1"]]}}
    out["O7/backoff-then-running-at-deadline"] = {"default": 1.0, "prog": {
        "setup": [retry_stack(1.0, 0.5)],
        "threads": [[sub("f0", None, [["raise", "E0"], ["vsleep", 2.0, ["tag"]]]), ["sleep", 0.25], sub("f1", 0.5, [["vsleep", 0.1, ["raise", "E1"]], ["tag"]])]],
        "settle": 5.0, "final": [["state", "f0"], ["state", "f1"]]}}
    out["F1/f_timeout-concurrent-first"] = {"ft": True, "prog": {
        "setup": [],
        "threads": [[["expr", "f0", ["f_timeout", ["src", "a0"], 2.0]]], [["expr", "f1", ["f_timeout", ["src", "a1"], 1.0]]],
                    [["sleep", 0.5], ["expr", "f2", ["f_timeout", ["src", "a2"], 0.25]], ["sleep", 1.0], ["complete", "a0", "value", 1]]],
        "settle": 3.0, "final": [["state", "f0"], ["state", "f1"], ["state", "f2"]]}}
    # the same small program with EVERY bytecode instruction of timeout.py as a scheduling point
    out["instr/O2-completion-vs-partition"] = dict(out["O2/completion-vs-partition"], instr_points=["timeout.py"])
    return out


def evaluate(case):
    prog = case["prog"]
    s, w = progs.run_case(case)
    info = {"end": s.end_reason, "steps": s.steps, "preemptions": s.preemptions}
    viols = []

    def bad(sig, **d):
        viols.append({"signature": "C09:" + sig, "detail": d})

    if s.end_reason != "done":
        if s.end_reason == "steps":
            info["inconclusive"] = True
        else:
            bad("run-ended-%s" % s.end_reason, stuck=getattr(s, "stuck_clients", None))
        return viols, info
    h = world.History(s, w)
    ops = h.oplist()
    default = case.get("default")
    subs = []
    for o in ops:
        if o["op"][0] == "submit" and o["result"] == ["ok", "submitted"]:
            subs.append({"name": o["op"][2], "timeout": o["op"][3].get("timeout", default), "call_t": o["call_t"], "ret_t": o["ret_t"],
                         "ret_seq": o["ret_seq"], "call_seq": o["call_seq"], "target": None, "fn": o["op"][2] + ".fn"})
        elif o["op"][0] == "submit" and o["result"][0] == "exc":
            bad("submit-raised:%s" % o["result"][1], result=o["result"])
        elif o["op"][0] == "expr" and o["op"][2][0] == "f_timeout" and o["result"][0] == "ok":
            subs.append({"name": o["op"][1], "timeout": o["op"][2][2], "call_t": o["call_t"], "ret_t": o["ret_t"], "ret_seq": o["ret_seq"],
                         "call_seq": o["call_seq"], "target": o["op"][2][1][1], "fn": None, "created_t": o["call_t"]})
    # base future per submission; delegate-submit-return time (tap below the timeout layer)
    for ev in s.events:
        if ev[3] == "base_submit":
            for sb in subs:
                if sb["fn"] == ev[4]["fn"]:
                    sb["target"] = ev[4]["fut"]
        elif ev[3] == "tap_submitted":
            for sb in subs:
                if sb["fn"] == ev[4]["fn"] and "created_t" not in sb:
                    sb["created_t"] = ev[1]
    # cancel() calls arriving at the *returned* futures (recorded by the wrapper around _Future.cancel)
    ids = dict((id(f), n) for n, f in w.futs.items())
    cancels = {}
    for ev in s.events:
        if ev[3] == "lcancel_call" and ev[4]["fid"] in ids:
            cancels.setdefault(ids[ev[4]["fid"]], []).append({"seq": ev[0], "t": ev[1], "thread": ev[2]})
    completes = {}
    for ev in s.events:
        if ev[3] == "job_end":
            completes["%s.j%d" % (ev[4]["ex"], ev[4]["job"])] = ev[1]
    # with layers below the timeout layer (poll!) the base job ending is not the future ending: the recording tap
    # directly below the timeout layer tells when the timeout layer's delegate future became done
    tapdone = {}
    for ev in s.events:
        if ev[3] == "tap_done" and ev[4]["fn"]:
            tapdone.setdefault(ev[4]["fn"], (ev[1], ev[4]["cancelled"]))
    for sb in subs:
        if sb["fn"] is not None and sb["target"] is None:
            sb["target"] = sb["fn"]  # (thread-pool base: no base job to name; the tap's record is keyed by the callable)
        if sb["fn"] is not None and sb["target"] is not None:
            completes.pop(sb["target"], None)
            if sb["fn"] in tapdone:
                completes[sb["target"]] = tapdone[sb["fn"]][0]
    ran = set(sb["target"] for sb in subs if sb["fn"] in tapdone and not tapdone[sb["fn"]][1])
    for o in ops:
        if o["op"][0] == "complete" and o["result"][0] == "ok" and o["result"][1] not in ("noop", "missing") and ".base.j" not in o["op"][1]:
            completes.setdefault(o["op"][1], o["ret_t"])
    user_cancel = {}
    for o in ops:
        if o["op"][0] == "cancel" and o["result"] == ["ok", True]:
            user_cancel.setdefault(o["op"][1], o["ret_t"])
    finals = dict((o["op"][1], o["result"][1]) for o in ops if o["op"][0] == "state" and o["result"][0] == "ok")
    deadlines = sorted(set(round(sb.get("created_t", sb["call_t"]) + sb["timeout"], 6) for sb in subs))
    nt = False
    for sb in subs:
        d_lo = sb.get("created_t", sb["call_t"]) + sb["timeout"]
        d_hi = sb["ret_t"] + sb["timeout"]
        # (futures are told apart by address: an internal future that died before this one was created may have had the same one)
        by_timer = [c for c in cancels.get(sb["name"], []) if c["thread"].startswith("TimeoutExecutor") and c["seq"] > sb["call_seq"]]
        t_done = completes.get(sb["target"])
        t_user = user_cancel.get(sb["name"])
        ended = min([x for x in (t_done, t_user) if x is not None] or [None]) if (t_done is not None or t_user is not None) else None
        for c in by_timer:
            if c["t"] < d_lo - EPS:
                bad("cancel-before-deadline", fut=sb["name"], at=c["t"], deadline=d_lo)
        if ended is not None and abs(ended - d_lo) < EPS:
            nt = True
            continue  # tie at the deadline: either
        if ended is not None and ended < d_lo:
            if by_timer:
                # a cancel attempt on a future that already finished
                bad("cancel-attempt-on-finished-future", fut=sb["name"], attempts=by_timer, finished_at=ended)
            st = finals.get(sb["name"])
            if st is not None and t_user is None and sb["target"] in ran and not (st["done"] and not st["cancelled"]):
                bad("outcome-lost-for-future-finished-in-time", fut=sb["name"], state=st)
            continue
        # still pending at its deadline
        if len(by_timer) == 0:
            bad("no-cancel-at-deadline", fut=sb["name"], deadline=[d_lo, d_hi])
        elif len(by_timer) > 1:
            bad("cancelled-%d-times" % len(by_timer), fut=sb["name"], attempts=by_timer)
        elif by_timer[0]["t"] > d_hi + EPS:
            bad("cancel-late", fut=sb["name"], at=by_timer[0]["t"], deadline=[d_lo, d_hi])
    # non-triviality: a shorter deadline submitted while a longer one was already pending
    for a in subs:
        for b in subs:
            if a is not b and a["ret_t"] <= b["call_t"] and a.get("created_t", a["call_t"]) + a["timeout"] > b.get("created_t", b["call_t"]) + b["timeout"] + EPS:
                nt = True
    info["nt"] = nt
    return viols, info


def account(ctx, case, viols, info, extra=()):
    if info.get("inconclusive"):
        ctx.inconclusive += 1
    cls = ["end:" + info["end"], "preempt:%d" % min(info.get("preemptions", 0), 3), "nt:%s" % info.get("nt"),
           "kind:%s" % ("f_timeout" if case.get("ft") else "throttled" if case.get("throttled") else case.get("kind") or "executor")] + list(extra)
    ctx.case(case, bool(info.get("nt")), cls, sample={"case": case})
    new = False
    for v in viols:
        if ctx.violation(v["signature"], case, v["detail"]):
            new = True
    return new


def case_strategy():
    from hypothesis import strategies as st
    import gen
    T = st.sampled_from([0, 0.01, 0.25, 0.5, 1.0, 1.5, 2.0, 4.0, 8.0])  # (0: due at once)
    D = st.sampled_from([0, 0, 0.25, 0.5, 1.0])

    @st.composite
    def cases(draw):
        kind = draw(st.sampled_from(["executor", "executor", "throttled", "f_timeout", "retrypool"]))
        n = draw(st.integers(1, 6))
        nthreads = draw(st.integers(1, 3))
        threads = [[] for _ in range(nthreads)]
        default = draw(T)
        horizon = 0.0
        names = []
        for i in range(n):
            t = threads[i % nthreads]
            d = draw(D)
            if d:
                t.append(["sleep", d])
            f = "f%d" % i
            names.append(f)
            to = draw(st.one_of(st.none(), T))
            if kind == "f_timeout":
                to = to or default
                t.append(["expr", f, ["f_timeout", ["src", "a%d" % i], to]])
            elif kind == "retrypool":
                # attempts that take (virtual) time and fail, back-off in between: running / pending phases alternate
                script = []
                for _ in range(draw(st.integers(0, 2))):
                    script.append(["vsleep", draw(st.sampled_from([0.1, 0.4, 1.1])), ["raise", "E0"]])
                script.append(draw(st.sampled_from([["tag"], ["vsleep", 0.3, ["tag"]], ["vsleep", 3.0, ["tag"]]])))
                t.append(sub(f, to, script))
            else:
                t.append(sub(f, to))
            horizon = max(horizon, 4.0 + (to or default))
        comp = []
        for _ in range(draw(st.integers(0, 5))):
            d = draw(st.sampled_from([0, 0.25, 0.5, 1.0, 2.0]))
            if d:
                comp.append(["sleep", d])
            j = draw(st.integers(0, n - 1))
            if kind == "f_timeout":
                comp.append(draw(st.sampled_from([["complete", "a%d" % j, "value", j], ["complete", "a%d" % j, "error", "E1"], ["cancel", "f%d" % j]])))
            elif kind == "retrypool":
                comp.append(["cancel", "f%d" % j])
            else:
                comp.append(draw(st.sampled_from([["run", "ex", j], ["run", "ex", j], ["cancel", "f%d" % j], ["complete", "ex.base.j%d" % j, "cancel"]])))
        threads.append(comp)
        if kind == "throttled":
            drain = []
            for _ in range(n + 2):
                drain += [["sleep", 0.75], ["runall", "ex"]]
            threads.append(drain)
        if kind == "retrypool":
            setup = [retry_stack(default, draw(st.sampled_from([0.3, 0.7, 20.0])))]
        else:
            setup = [] if kind == "f_timeout" else [stack(default, draw(st.integers(1, 2)) if kind == "throttled" else None)]
        prog = {"setup": setup, "threads": threads, "settle": horizon + 2.0, "final": [["state", f] for f in names]}
        return {"prog": prog, "default": default, "ft": kind == "f_timeout", "throttled": kind == "throttled", "kind": kind,
                "tape": draw(gen.tapes(8)), "clock": "exact", "max_vtime": 300}

    return cases()


def shards(tier, seed):
    cat = sorted(catalog())
    specs = [{"mode": "sweep", "entries": [n], "double": tier == "thorough"} for n in cat]
    n = 300 if tier == "quick" else 5000
    for i in range(10):
        specs.append({"mode": "random", "seed": seed * 1000 + i, "n": n})
    return specs


def run_shard(spec, ctx):
    if spec["mode"] == "sweep":
        cat = catalog()
        for name in spec["entries"]:
            ent = cat[name]
            extra = {"default": ent.get("default"), "ft": ent.get("ft", False), "throttled": ent.get("throttled"), "entry": name, "max_vtime": 300}
            if ent.get("instr_points"):
                extra["instr_points"] = ent["instr_points"]
            progs.sweep(ctx, ent["prog"], name, evaluate, account, double=spec.get("double") and not ent.get("instr_points"), extra=extra)
    else:
        progs.random_search(ctx, spec, case_strategy(), evaluate, account)


def replay(case):
    viols, info = evaluate(case)
    return viols
