"""C19 - bind / flat_bind chains are equivalent to the executor chain; names propagate."""
import harness
import progs
import world

PROPERTY = "C19"
LEVEL = "exploration"
RULE = (
    "cases = (base sync or thread_pool, named or not; a with_* chain of 0-5 layers of every type split at a generated point into "
    "'before bind' and 'after bind'; explicit name= at generated positions; a callable that is a recording function, a "
    "functools.partial of it, or a callable object carrying private attributes (one variant of it falsy: __len__() == 0), returning a value, raising (so that retry layers "
    "re-invoke it) or - for flat_bind - returning a future; positional and keyword arguments). Each case is run twice under the "
    "engine, in bind form (executor.bind(fn) [or flat_bind], then the remaining with_* calls on the bound callable, then a call) and "
    "in submit form (the same chain on the executor [plus with_flat_map(identity)], then submit(fn, *args)). Oracle (differential): "
    "same outcome, same number of invocations of fn and of every layer function; the threads created while building either form are "
    "named after the name in force at their layer (base name, or the latest explicit one upstream). Non-trivial = chain length >= 2 "
    "with at least one layer after the bind. Distinct = digest of the case."
)
ASSUMPTIONS = ["layer functions are deterministic functions of their argument, so both forms are comparable run against run"]

THREAD_PREFIX = {"retry": "RetryExecutor", "poll": "PollExecutor", "throttle": "ThrottleExecutor", "timeout": "TimeoutExecutor"}


def programs(case):
    base = dict(case["base"])
    if case.get("base_name") is not None:
        base["name"] = case["base_name"]
    before = {"base": base, "layers": case["before"], "methods": True}
    args = case.get("args", [])
    kwargs = case.get("kwargs", {})
    cal = case["callable"]
    t1 = [["bcall", "B", "F", args, kwargs]]
    t2 = [["xsubmit", "B", "F", cal, args, kwargs]]
    final = [["state", "F"]]
    if case.get("also_call") is not None:
        # an INTERMEDIATE bound callable (after `also_call` of the with_* calls) is kept and called as well, after the full chain was
        # built from it and used: it must still be the shorter chain
        j = min(case["also_call"], len(case["after"]))
        t1 += [["result", "F", 30], ["bcall", "B@%d" % j, "G", args, kwargs]]
        t2 += [["result", "F", 30], ["xsubmit", "B@%d" % j, "G", cal, args, kwargs]]
        final = [["state", "F"], ["state", "G"]]
    p1 = {"setup": [["bindchain", "B", before, cal, case["after"], case.get("flat", False)]],
          "threads": [t1], "settle": 6, "final": final}
    p2 = {"setup": [["execchain", "B", before, case["after"], case.get("flat", False)]],
          "threads": [t2], "settle": 6, "final": final}
    return p1, p2


def observe(prog):
    s, w = progs.run_case({"prog": prog, "tape": [], "clock": "exact", "max_vtime": 200})
    h = world.History(s, w)
    sts = [o for o in h.oplist("state")]
    st = [o["result"] for o in sts if o["op"][1] == "F"]
    st = st[-1][1] if st and st[-1][0] == "ok" else st
    st2 = [o["result"] for o in sts if o["op"][1] == "G"]
    st2 = st2[-1][1] if st2 and st2[-1][0] == "ok" else (st2 or None)
    counts = {}
    for ev in s.events:
        if ev[3] in ("call", "poll_call"):
            counts[ev[4]["fn"]] = counts.get(ev[4]["fn"], 0) + 1
    threads = [ev[4]["name"] for ev in s.events if ev[3] == "thread_start"]
    setup_err = [o["result"] for o in h.oplist() if o["op"][0] in ("bindchain", "execchain", "bcall", "xsubmit") and o["result"][0] != "ok"]
    return {"end": s.end_reason, "state": st, "state2": st2, "counts": counts, "threads": threads, "errors": setup_err}


def expected_threads(case):
    name = case.get("base_name") if case.get("base_name") is not None else "default"
    out = []
    if case["base"]["kind"] == "pool" and case.get("base_name") is not None:
        out.append("ThreadPoolExecutor-%s_" % name)
    elif case["base"]["kind"] == "pool":
        out.append("ThreadPoolExecutor-")
    chain = list(case["before"]) + ([{"kind": "flat_map"}] if case.get("flat") else []) + list(case["after"])
    for l in chain:
        if l.get("name") is not None:
            name = l["name"]
        if l["kind"] in THREAD_PREFIX:
            out.append("%s-%s" % (THREAD_PREFIX[l["kind"]], name))
    return out


def norm_state(st):
    if not isinstance(st, dict):
        return st
    out = {"done": st.get("done"), "cancelled": st.get("cancelled")}
    if "value" in st:
        out["value"] = st["value"]
    if "exc" in st:
        out["exc"] = st["exc"][:2] + [st["exc"][2]]
    return out


def evaluate(case):
    p1, p2 = programs(case)
    o1 = observe(p1)
    o2 = observe(p2)
    viols = []
    info = {"end": o1["end"], "bind": o1, "submit": o2}

    def bad(sig, **d):
        viols.append({"signature": "C19:" + sig, "detail": d})

    for form, o in (("bind", o1), ("submit", o2)):
        if o["end"] != "done":
            bad("%s-form-run-ended-%s" % (form, o["end"]))
            return viols, info
        if o["errors"]:
            bad("%s-form-raised:%s" % (form, o["errors"][0][1]), errors=o["errors"])
            return viols, info
    if norm_state(o1["state"]) != norm_state(o2["state"]):
        nested = isinstance(o1["state"], dict) and o1["state"].get("vtype") == "Future"
        bad("outcome-differs" + (":nested-future" if nested else ""), bind=o1["state"], submit=o2["state"])
    # absolute part: whatever quacks like a future is flattened (both forms would agree on refusing it)
    last = (case["callable"].get("script") or [[None]])[-1]
    plain_below = all(l["kind"] in ("retry", "throttle", "timeout", "cos") for l in case["before"])  # (nothing re-wraps the value)
    if case.get("flat") and plain_below and last[0] == "fut" and last[1] in ("done", "duck"):
        for form, o in (("bind", o1), ("submit", o2)):
            st_ = o["state"] if isinstance(o["state"], dict) else {}
            if st_.get("exc") and st_["exc"][1] == "TypeError":
                bad("future-returned-by-fn-not-flattened:%s-form" % form, state=st_, returned=last)
    if norm_state(o1["state2"]) != norm_state(o2["state2"]):
        bad("intermediate-bound-callable-differs", bind=o1["state2"], submit=o2["state2"], also_call=case.get("also_call"))
    if o1["counts"] != o2["counts"]:
        diff = sorted(k for k in set(o1["counts"]) | set(o2["counts"]) if o1["counts"].get(k) != o2["counts"].get(k))
        which = "fn" if any(k == "B.fn" for k in diff) else "layer-fn"
        bad("invocation-counts-differ:" + which, bind=o1["counts"], submit=o2["counts"])
    want = expected_threads(case)
    for form, o in (("bind", o1), ("submit", o2)):
        got = o["threads"]
        # pool workers are created lazily; compare the executor-owned threads in creation order
        g = [t for t in got if not t.startswith("ThreadPoolExecutor")]
        wnt = [t for t in want if not t.startswith("ThreadPoolExecutor")]
        if g != wnt:
            bad("thread-names:%s-form" % form, got=g, expected=wnt)
        pools = [t for t in got if t.startswith("ThreadPoolExecutor")]
        wp = [t for t in want if t.startswith("ThreadPoolExecutor")]
        if wp and pools and not all(t.startswith(wp[0]) for t in pools):
            bad("pool-thread-names:%s-form" % form, got=pools, expected_prefix=wp[0])
    return viols, info


def nontrivial(case):
    return len(case["before"]) + len(case["after"]) >= 2 and len(case["after"]) >= 1


def account(ctx, case, viols, info, extra=()):
    cls = ["before:%d" % len(case["before"]), "after:%d" % len(case["after"]), "callable:" + case["callable"]["kind"], "flat:%s" % case.get("flat", False),
           "named-base:%s" % bool(case.get("base_name"))] + ["layer:" + l["kind"] for l in case["before"] + case["after"]] + list(extra)
    ctx.case(case, nontrivial(case), cls, sample={"case": case, "bind_form": {"state": info["bind"]["state"], "threads": info["bind"]["threads"]},
                                                   "submit_form": {"state": info["submit"]["state"], "threads": info["submit"]["threads"]}})
    new = False
    for v in viols:
        if ctx.violation(v["signature"], case, v["detail"]):
            new = True
    return new


def case_strategy():
    from hypothesis import strategies as st

    def layer():
        nm = st.one_of(st.none(), st.none(), st.sampled_from(["x", "y", "zed", "", 0]))  # ("" and 0: legal, falsy names)
        return st.one_of(
            st.builds(lambda n: {"kind": "map", "fn": [["app", "m"]], "err": None, "name": n}, nm),
            st.builds(lambda n: {"kind": "map", "fn": None, "err": [["app", "h"]], "name": n}, nm),
            st.builds(lambda n: {"kind": "flat_map", "fn": [["futarg", "done"]], "err": None, "name": n}, nm),
            st.builds(lambda n, m: {"kind": "retry", "policy": {"type": "exc", "max_attempts": m, "sleep": 0.25, "exponent": 1.0, "base": ["E0"]}, "name": n}, nm, st.integers(1, 3)),
            st.builds(lambda n: {"kind": "poll", "interval": 0.25, "per_sub": {}, "name": n}, nm),
            st.builds(lambda n, c: {"kind": "throttle", "count": c, "name": n}, nm, st.sampled_from([1, 2, None])),
            st.builds(lambda n: {"kind": "timeout", "t": 5000.0, "name": n}, nm),
            st.builds(lambda n: {"kind": "cos", "name": n}, nm),
        )

    @st.composite
    def cases(draw):
        layers = draw(st.lists(layer(), min_size=0, max_size=5))
        cut = draw(st.integers(0, len(layers)))
        flat = draw(st.integers(0, 3)) == 0
        kind = draw(st.sampled_from(["fn", "fn", "partial", "obj", "falsy", "bound"]))  # bound: a callable already bound to another executor
        if flat:
            script = draw(st.sampled_from([[["fut", "done"]], [["fut", "err", "E2"]], [["raise", "E0"], ["fut", "done"]], [["fut", "duck"]]]))
        else:
            script = draw(st.sampled_from([[["echo"]], [["echo"]], [["raise", "E0"], ["echo"]], [["raise", "E0"], ["raise", "E0"], ["echo"]], [["raise", "E2"]], [["tag"]]]))
        base = draw(st.sampled_from([{"kind": "sync"}, {"kind": "sync"}, {"kind": "pool", "workers": 1}, {"kind": "pool", "workers": 2}]))
        return {"base": base, "base_name": draw(st.sampled_from([None, "bee", "b2", "", 0])), "before": layers[:cut], "after": layers[cut:], "flat": flat,
                "callable": {"kind": kind, "script": script},
                "args": draw(st.lists(st.one_of(st.integers(-3, 3), st.text(max_size=3)), max_size=3)),
                "kwargs": draw(st.dictionaries(st.sampled_from(["a", "b", "kw"]), st.integers(0, 5), max_size=2)),
                "also_call": draw(st.sampled_from([None, None, 0, 0, 1, 2]))}

    return cases()


def shards(tier, seed):
    n = 250 if tier == "quick" else 4000
    return [{"mode": "random", "seed": seed * 1000 + i, "n": n} for i in range(16)]


def run_shard(spec, ctx):
    progs.random_search(ctx, spec, case_strategy(), evaluate, account)


def replay(case):
    viols, info = evaluate(case)
    return viols
