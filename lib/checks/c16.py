"""C16 - f_apply calls the function once, with every argument in its place."""
import itertools

import harness
import combo
import progs
import world

PROPERTY = "C16"
LEVEL = "exploration"
RULE = (
    "cases = (p positional + k keyword argument futures + the function future, outcome per input from {value, exception, "
    "cancelled, never}, the function echoes (args, sorted kwargs) or raises, completion events over 1-3 threads, tape). "
    "Enumerated: every (p,k) with p+k<=4 x every completion order of all p+k+1 inputs, plus a failure at every position x every order "
    "(p+k<=3); 8..64 arguments (function last, first argument last, in order, reversed, rotations; a failing argument in the middle; a raising function); one argument whose value is itself a future (done / failed / pending) at every position; Hypothesis: up to 5 positional + 4 keyword arguments completed concurrently with tapes. Oracle: result == fn(*args, **kwargs) "
    "of the plain values; fn called exactly once and only after the last input's completing call began; failing input or fn => that exception. "
    "Non-trivial = >=2 argument futures completing out of argument order or concurrently, or a failure. Distinct = digest of the case."
)
ASSUMPTIONS = ["when several inputs fail, the output may carry any one of their exceptions (the statement fixes none)",
               "a never-completing input is only combined with otherwise successful inputs"]


KNOWN_RECURSION = "C16:recursion-limit:more-than-55-arguments-with-the-function-or-first-argument-resolving-last"


def expr_of(case):
    p, k = case["p"], case["k"]
    return ["f_apply", ["src", combo.src(0)], [["src", combo.src(1 + i)] for i in range(p)],
            dict(("k%d" % j, ["src", combo.src(1 + p + j)]) for j in range(k))]


def value_of(i):
    return ["v", i]


def evaluate(case):
    p, k = case["p"], case["k"]
    n = 1 + p + k
    c2 = dict(case, n=n, args=list(range(n)))
    s, w, obs = combo.run(c2, expr_of(case))
    viols = []
    info = {"end": obs["end"], "concurrent": combo.concurrent(obs["events"]), "steps": s.steps}

    def bad(sig, **detail):
        detail["observed"] = {"final": obs["final"], "events": obs["events"]}
        viols.append({"signature": "C16:%s" % sig, "detail": detail})

    if obs["end"] != "done" or obs["unfinished"]:
        bad("hang", end=obs["end"], unfinished=obs["unfinished"])
        return viols, info
    if obs["construct"]["result"][0] != "ok":
        bad("constructor-raised:%s" % obs["construct"]["result"][1], result=obs["construct"]["result"])
        return viols, info
    got = combo.out_state(obs["final"].get("out"))
    info["got"] = got
    outcomes = {}
    for i, spec in case.get("predone", {}).items():
        outcomes[int(i)] = combo.outcome_of_spec(spec, combo.src(int(i)))
    for e in obs["events"]:
        if e["kind"] == "c" and not e["noop"] and e["input"] not in outcomes:
            outcomes[e["input"]] = combo.outcome_of_spec(e["spec"], combo.src(e["input"]))
    failing = [oc for oc in outcomes.values() if oc[0] != "v"]
    missing = [i for i in range(n) if i not in outcomes]
    calls = [e for e in s.events if e[3] == "call" and e[4]["fn"] == "a0.fn"]
    if failing:
        exp = sorted(set(repr(oc) for oc in failing))
        ok = got[0] != "pending" and got[0] != "v" and (got == ("c",) and any(oc == ("c",) for oc in failing) or repr(got) in exp
                                                          or got[0] == "c" and any(oc == ("c",) for oc in failing))
        if not ok:
            bad("wrong-outcome:%s-for-failure" % got[0], expected_any_of=exp, got=got)
        info["expected"] = exp
    elif missing:
        if got != ("pending",):
            bad("done-with-pending-input:%s" % got[0], got=got, missing=missing)
        info["expected"] = ["pending"]
    else:
        if case.get("fn_raises"):
            exp = ("e", ("c", "a0.fn", 0))
        else:
            fv = case.get("futvalues", {})

            def val(i):
                # (an argument whose VALUE is a future must reach the function as that very object)
                return ["!future", combo.src(i) + ".val"] if str(i) in fv else world._thaw(value_of(i))
            exp = ("v", (tuple(val(1 + i) for i in range(p)),
                         tuple(sorted(("k%d" % j, val(1 + p + j)) for j in range(k)))))  # (the echo sorts by name)
        info["expected"] = [exp]
        if exp[0] != got[0] or world.jsonable(exp[1]) != world.jsonable(got[1]):
            bad("wrong-outcome:%s-for-%s" % (got[0], exp[0]), expected=exp, got=got)
        if len(calls) != 1:
            bad("fn-called-%d-times" % len(calls))
        else:
            last_call = max([e["call"] for e in obs["events"] if e["kind"] == "c"] or [0])
            if calls[0][0] < last_call:
                bad("fn-called-before-all-inputs-resolved", fn_call_seq=calls[0][0], last_completion_call=last_call)
    if len(calls) > 1:
        bad("fn-called-%d-times" % len(calls))
    if (failing or missing) and calls and not any(oc[0] != "v" for i, oc in outcomes.items() if i != 0) is False:
        pass
    if calls and any(outcomes.get(i, ("n",))[0] != "v" for i in range(1, n)):
        bad("fn-called-although-an-argument-did-not-resolve")
    # known finding (recorded in known_findings.json): f_apply curries its arguments one by one, and the chain of map / flat_map
    # futures it builds resolves recursively - about 15 interpreter frames per argument - when the function future or the first
    # argument is the LAST input to resolve.  With more than ~55 arguments that exceeds the default recursion limit: the output
    # fails with RecursionError or, where a callback wrapper swallows it, stays pending.  Recognised by this exact shape only.
    evs = [e for t in case["threads"] for e in t if e[0] == "c"]
    if viols and p + k >= 56 and len(case["threads"]) == 1 and not failing and not missing and not case.get("fn_raises") \
            and evs and evs[-1][1] in (0, 1) and (got == ("pending",) or "RecursionError" in repr(got)):
        viols[:] = [{"signature": KNOWN_RECURSION, "detail": {"p": p, "k": k, "last_input": evs[-1][1], "got": got[0]}}]
    return viols, info


def nontrivial(case, info):
    evs = [e for t in case["threads"] for e in t if e[0] == "c"]
    order = [e[1] for e in evs if e[1] != 0]
    if info.get("concurrent") and case["p"] + case["k"] >= 2:
        return True
    if len(order) >= 2 and order != sorted(order):
        return True
    return any(e[2] not in ("value", "fn") for e in evs) or bool(case.get("fn_raises"))


def account(ctx, case, viols, info, extra=()):
    cls = ["p:%d" % case["p"], "k:%d" % case["k"], "concurrent:%s" % info.get("concurrent"),
           "out:%s" % (info.get("got") or ("?",))[0]] + list(extra)
    ctx.case(case, nontrivial(case, info), cls, sample={"case": case, "expected": info.get("expected"), "got": info.get("got")})
    new = False
    for v in viols:
        if ctx.violation(v["signature"], case, v["detail"]):
            new = True
    return new


def ev_for(i, kind, fn_raises=False):
    if kind == "V":
        if i == 0:
            return ["c", 0, "fn", [["raise", "ISE" if fn_raises == "ISE" else "E2"]] if fn_raises else [["echo"]]]
        return ["c", i, "value", value_of(i)]
    if kind == "E":
        return ["c", i, "error", "EF" if i % 2 else "E1"]  # (odd positions fail with a falsy exception instance)
    if kind == "C":
        return ["c", i, "cancel"]
    return None


def futvalue_cases():
    """Arguments whose value is itself a Future (finished, failed or pending): f_apply hands values on, it does not flatten them."""
    for p, k in ((1, 0), (2, 0), (1, 1), (0, 1), (3, 1)):
        n = 1 + p + k
        for which in range(1, n):
            for st in ("done", "err", "pending"):
                for order in (list(range(n)), list(range(n - 1, -1, -1)), list(range(1, n)) + [0]):
                    evs = [["c", i, "futvalue", st] if i == which else ev_for(i, "V") for i in order]
                    yield {"p": p, "k": k, "futvalues": {str(which): st}, "threads": [evs], "tape": []}


def enum_cases(part, parts):
    idx = 0
    for total in range(0, 5):
        for p in range(total + 1):
            k = total - p
            n = 1 + p + k
            for order in itertools.permutations(range(n)):
                idx += 1
                if idx % parts != part:
                    continue
                yield {"p": p, "k": k, "threads": [[ev_for(i, "V") for i in order]], "tape": []}
                if total <= 3:
                    yield {"p": p, "k": k, "fn_raises": True, "threads": [[ev_for(i, "V", True) for i in order]], "tape": []}
                    yield {"p": p, "k": k, "fn_raises": "ISE", "threads": [[ev_for(i, "V", "ISE") for i in order]], "tape": []}
                    for bad_i in range(n):
                        for kind in ("E", "C"):
                            yield {"p": p, "k": k, "threads": [[ev_for(i, kind if i == bad_i else "V") for i in order]], "tape": []}
                    for never in range(n):
                        yield {"p": p, "k": k, "threads": [[ev_for(i, "V") for i in order if i != never]], "tape": []}
                if total <= 2:
                    for mask in range(1, 2 ** n):
                        pre = dict((str(i), ev_for(i, "V")[2:]) for i in range(n) if mask >> i & 1)
                        yield {"p": p, "k": k, "predone": pre, "threads": [[ev_for(i, "V") for i in order if not mask >> i & 1]], "tape": []}


def arity_cases():
    """Many arguments: every input position, three completion orders (function last / first argument last / in order) and rotations."""
    for p, k in ((8, 0), (0, 8), (12, 6), (16, 0), (24, 0), (24, 8), (32, 0), (40, 0), (36, 8), (56, 0), (60, 0), (64, 0), (40, 24)):
        n = 1 + p + k
        orders = [list(range(1, n)) + [0], [0] + list(range(2, n)) + [1], list(range(n)), list(range(n - 1, -1, -1))]
        if n <= 45:
            orders += [list(range(r, n)) + list(range(r)) for r in (n // 3, n // 2)]
        for order in orders:
            yield {"p": p, "k": k, "threads": [[ev_for(i, "V") for i in order]], "tape": []}
        if n <= 45:
            yield {"p": p, "k": k, "threads": [[ev_for(i, "E" if i == n // 2 else "V") for i in orders[0]]], "tape": []}
            yield {"p": p, "k": k, "fn_raises": True, "threads": [[ev_for(i, "V", True) for i in orders[1]]], "tape": []}


def conc_catalog():
    """Function future and argument futures completed by different threads at the same instant."""
    out = {}
    for p, k in ((1, 0), (2, 0), (1, 1)):
        n = 1 + p + k
        out["p%dk%d" % (p, k)] = {"p": p, "k": k, "threads": [[ev_for(i, "V")] for i in range(n)], "tape": []}
        out["p%dk%d/fn-raises" % (p, k)] = {"p": p, "k": k, "fn_raises": True, "threads": [[ev_for(i, "V", True)] for i in range(n)], "tape": []}
        out["p%dk%d/arg-fails" % (p, k)] = {"p": p, "k": k, "threads": [[ev_for(i, "E" if i == n - 1 else "V")] for i in range(n)], "tape": []}
    return out


def shards(tier, seed):
    parts = 8
    specs = [{"mode": "enum", "part": i, "parts": parts} for i in range(parts)]
    specs.append({"mode": "arity"})
    specs.append({"mode": "futvalue"})
    cc = sorted(conc_catalog())
    for i in range(0, len(cc), 1):
        specs.append({"mode": "conc", "entries": cc[i:i + 1], "double": tier == "thorough"})
    n = 250 if tier == "quick" else 4000
    for i in range(8):
        specs.append({"mode": "random", "seed": seed * 1000 + i, "n": n})
    return specs


def case_strategy():
    from hypothesis import strategies as st
    import gen

    @st.composite
    def cases(draw):
        p = draw(st.integers(0, 5))
        k = draw(st.integers(0, 4))
        n = 1 + p + k
        fn_raises = draw(st.integers(0, 6)) == 0
        kinds = ["V"] * n
        if draw(st.integers(0, 3)) == 0:
            for _ in range(draw(st.integers(1, 2))):
                kinds[draw(st.integers(0, n - 1))] = draw(st.sampled_from(["E", "C"]))
        nthreads = draw(st.integers(1, 3))
        threads = [[] for _ in range(nthreads)]
        for i in draw(st.permutations(list(range(n)))):
            threads[draw(st.integers(0, nthreads - 1))].append(ev_for(i, kinds[i], fn_raises))
        return {"p": p, "k": k, "fn_raises": fn_raises, "threads": threads, "tape": draw(gen.tapes(6)), "clock": "exact"}

    return cases()


def run_shard(spec, ctx):
    if spec["mode"] == "enum":
        kk = 0
        for case in enum_cases(spec["part"], spec["parts"]):
            viols, info = evaluate(case)
            account(ctx, case, viols, info, ["enum"])
            kk += 1
        ctx.exhaustive.append({"domain": "f_apply: (p,k) with p+k<=4 x all completion orders; failure/cancel/never at every position (p+k<=3); pre-done masks (p+k<=2) (part %d/%d)" % (spec["part"], spec["parts"]),
                               "size": kk, "complete": True})
    elif spec["mode"] == "futvalue":
        kk = 0
        for case in futvalue_cases():
            viols, info = evaluate(case)
            account(ctx, case, viols, info, ["futvalue"])
            kk += 1
        ctx.exhaustive.append({"domain": "f_apply with one argument whose value is a future (done / failed / pending), every position, three orders", "size": kk, "complete": True})
    elif spec["mode"] == "arity":
        kk = 0
        for case in arity_cases():
            viols, info = evaluate(case)
            account(ctx, case, viols, info, ["arity:%s" % ("<=45" if case["p"] + case["k"] <= 45 else ">=56")])
            kk += 1
        ctx.exhaustive.append({"domain": "f_apply with 8..64 arguments: function last / first argument last / in order / reversed / rotations", "size": kk, "complete": True})
    elif spec["mode"] == "conc":
        cat = conc_catalog()
        for name in spec["entries"]:
            base = cat[name]
            v, info = evaluate(base)
            account(ctx, base, v, info, ["conc"])
            n = info.get("steps", 0)
            count = 1
            for i in range(n + 1):
                for pk in (0, 1):
                    c = dict(base, tape=[[i, pk]])
                    v, info = evaluate(c)
                    account(ctx, c, v, info, ["conc1"])
                    count += 1
                    if spec.get("double"):
                        for j in range(12):
                            c = dict(base, tape=[[i, pk], [j, 0]])
                            v, info = evaluate(c)
                            account(ctx, c, v, info, ["conc2"])
                            count += 1
            ctx.exhaustive.append({"domain": "concurrent completion of f_apply %s: every single pre-emption%s" % (name, " and windowed pairs" if spec.get("double") else ""),
                                   "size": count, "complete": True})
    else:
        progs.random_search(ctx, spec, case_strategy(), evaluate, account)


def replay(case):
    viols, info = evaluate(case)
    return viols
