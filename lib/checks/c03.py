"""C03 - no future is lost: once its underlying work is finished, the future finishes
(and no later than the virtual time implied by the configured delays)."""
import harness
import progs
import world
import models

PROPERTY = "C03"
LEVEL = "exploration"
RULE = (
    "cases = (program, tape) under the exact virtual clock. (E) a catalogue of micro-programs - producer action || worker loop of "
    "retry / poll / throttle / timeout, completion || combinator callback, and cancellation of an inner/input future behind the back of "
    "the derived one for every layer type and combinator - with EVERY single pre-emption placement (thorough: pairs); each program "
    "carries explicit expectations 'future X is done by virtual time T' / 'event E happens by T' derived from the configured delays, "
    "all shorter than the 2 s / 30 s / poll-interval fallback timers. (B) Hypothesis-drawn stacks (depth<=4) and submissions with tapes, "
    "bound from the timed reference model. Non-trivial = a pre-emption was taken while a library worker thread was between its state "
    "check and the end of clear() (measured from the worker's current line), or the program cancels an inner/input future from outside. "
    "Distinct = digest of (program, tape)."
)
ASSUMPTIONS = [
    "exact clock mode: computation is instantaneous, only waiting consumes virtual time; tolerance 0.01 s",
    "the executor is never shut down in these programs",
]
EPS = 0.01

LOOP_FUNCS = ("_submit_loop", "_submit_wait", "_poll_loop", "_submit_loop_iter", "_job_loop", "_job_loop_iter",
              "_get_next_job", "_run_poll_fn", "_partition_jobs", "_block_until_ready")


def sub(name, script=None, **kw):
    d = {"script": script or [["tag"]]}
    d.update(kw)
    return ["submit", "ex", name, d]


def catalog():
    out = {}
    RETRY = {"kind": "retry", "policy": {"type": "exc", "max_attempts": 5, "sleep": 0.5, "exponent": 2.0}}
    # R1: retry delays 0.5 + 1.0
    for bname, base in (("sync", {"kind": "sync"}), ("pool1", {"kind": "pool", "workers": 1})):
        out["R1/" + bname] = {
            "prog": {"setup": [["build", "ex", {"base": base, "layers": [RETRY]}]],
                     "threads": [[sub("f0", [["raise", "E0"], ["raise", "E0"], ["tag"]]), ["add_cb", "f0", "cb0"]]],
                     "settle": 1.75, "final": [["state", "f0"]]},
            "expect": [{"done": "f0", "by": 1.5}]}
    # R2: manual base: failure at t=1 -> resubmission at 1.5
    out["R2/manual"] = {
        "prog": {"setup": [["build", "ex", {"base": {"kind": "manual"}, "layers": [RETRY]}]],
                 "threads": [[sub("f0", [["raise", "E0"], ["tag"]]), ["add_cb", "f0", "cb0"], ["sleep", 1.0], ["run", "ex", 0],
                              ["sleep", 0.75], ["run", "ex", 1]]],
                 "settle": 0.5, "final": [["state", "f0"]]},
        "expect": [{"event": "base_submit", "match": {"job": 1}, "by": 1.5}, {"done": "f0", "by": 1.75}]}
    # R3: a job with a nearer retry time arrives while the worker sleeps on a farther one
    out["R3/sync"] = {
        "prog": {"setup": [["build", "ex", {"base": {"kind": "sync"}, "layers": [
            {"kind": "retry", "policy": {"type": "exc", "max_attempts": 3, "sleep": 1.0, "exponent": 1.0}}]}]],
            "threads": [[sub("f0", [["raise", "E0"], ["tag"]]), ["add_cb", "f0", "cb0"]],
                        [["sleep", 0.25], sub("f1", [["raise", "E0"], ["tag"]], retry_policy={"type": "exc", "max_attempts": 3, "sleep": 0.25, "exponent": 1.0}),
                         ["add_cb", "f1", "cb1"]]],
            "settle": 1.25, "final": [["state", "f0"], ["state", "f1"]]},
        "expect": [{"done": "f1", "by": 0.5}, {"done": "f0", "by": 1.0}]}
    # P1: poll on registration, not after the interval; second registration while sleeping
    POLL5 = {"kind": "poll", "interval": 5.0}
    out["P1/manual"] = {
        "prog": {"setup": [["build", "ex", {"base": {"kind": "manual"}, "layers": [POLL5]}]],
                 "threads": [[sub("f0"), ["add_cb", "f0", "cb0"], sub("f1"), ["add_cb", "f1", "cb1"], ["sleep", 1.0], ["run", "ex", 0]],
                             [["sleep", 2.0], ["run", "ex", 1]]],
                 "settle": 0.5, "final": [["state", "f0"], ["state", "f1"]]},
        "expect": [{"done": "f0", "by": 1.0}, {"done": "f1", "by": 2.0}]}
    out["P1/sync"] = {
        "prog": {"setup": [["build", "ex", {"base": {"kind": "sync"}, "layers": [POLL5]}]],
                 "threads": [[["sleep", 0.5], sub("f0"), ["add_cb", "f0", "cb0"]], [["sleep", 1.5], sub("f1"), ["add_cb", "f1", "cb1"]]],
                 "settle": 0.5, "final": [["state", "f0"], ["state", "f1"]]},
        "expect": [{"done": "f0", "by": 0.5}, {"done": "f1", "by": 1.5}]}
    # P3: notify() triggers a poll
    out["P3/notify"] = {
        "prog": {"setup": [["build", "ex", {"base": {"kind": "sync"}, "layers": [
            {"kind": "poll", "interval": 5.0, "per_sub": {"f0.fn": {"after": 2}}}]}]],
            "threads": [[sub("f0"), ["add_cb", "f0", "cb0"]], [["sleep", 1.0], ["notify", "ex"]]],
            "settle": 0.5, "final": [["state", "f0"]]},
        "expect": [{"done": "f0", "by": 1.0}]}
    # P4: n-th sighting with a short interval
    out["P4/interval"] = {
        "prog": {"setup": [["build", "ex", {"base": {"kind": "sync"}, "layers": [
            {"kind": "poll", "interval": 0.5, "per_sub": {"f0.fn": {"after": 3}}}]}]],
            "threads": [[["sleep", 0.25], sub("f0"), ["add_cb", "f0", "cb0"]]],
            "settle": 1.5, "final": [["state", "f0"]]},
        "expect": [{"done": "f0", "by": 1.25}]}
    # T1/T2: throttle hand-over at the instant capacity frees
    out["T2/manual"] = {
        "prog": {"setup": [["build", "ex", {"base": {"kind": "manual"}, "layers": [{"kind": "throttle", "count": 1}]}]],
                 "threads": [[sub("f0"), ["add_cb", "f0", "cb0"], sub("f1"), ["add_cb", "f1", "cb1"], ["sleep", 1.0], ["run", "ex", 0], ["sleep", 0.5], ["run", "ex", 1]]],
                 "settle": 0.5, "final": [["state", "f0"], ["state", "f1"]]},
        "expect": [{"event": "base_submit", "match": {"job": 0}, "by": 0.0}, {"event": "base_submit", "match": {"job": 1}, "by": 1.0},
                   {"done": "f0", "by": 1.0}, {"done": "f1", "by": 1.5}]}
    out["T3/manual"] = {
        "prog": {"setup": [["build", "ex", {"base": {"kind": "manual"}, "layers": [{"kind": "throttle", "count": 2}]}]],
                 "threads": [[sub("f0"), sub("f1"), ["add_cb", "f1", "cb1"]], [["sleep", 0.5], sub("f2"), ["add_cb", "f2", "cb2"], ["sleep", 0.5], ["run", "ex", 1],
                                                                          ["sleep", 0.25], ["run", "ex", 2], ["run", "ex", 0]]],
                 "settle": 0.5, "final": [["state", "f0"], ["state", "f1"], ["state", "f2"]]},
        "expect": [{"event": "base_submit", "match": {"job": 2}, "by": 1.0}, {"done": "f1", "by": 1.0}, {"done": "f2", "by": 1.25}]}
    out["T5/pool1"] = {
        "prog": {"setup": [["build", "ex", {"base": {"kind": "pool", "workers": 1}, "layers": [{"kind": "throttle", "count": 1}]}]],
                 "threads": [[["sleep", 0.5], sub("f0"), ["add_cb", "f0", "cb0"], sub("f1"), ["add_cb", "f1", "cb1"]], [["sleep", 0.5], sub("f2"), ["add_cb", "f2", "cb2"]]],
                 "settle": 0.5, "final": [["state", "f0"], ["state", "f1"], ["state", "f2"]]},
        "expect": [{"done": "f0", "by": 0.5}, {"done": "f1", "by": 0.5}, {"done": "f2", "by": 0.5}]}
    # O1: a shorter timeout arrives while the worker sleeps on a longer one
    out["O1/manual"] = {
        "prog": {"setup": [["build", "ex", {"base": {"kind": "manual"}, "layers": [{"kind": "timeout", "t": 8.0}]}]],
                 "threads": [[sub("f0"), ["add_cb", "f0", "cb0"]], [["sleep", 1.0], sub("f1", timeout=2.0), ["add_cb", "f1", "cb1"]]],
                 "settle": 9.0, "final": [["state", "f0"], ["state", "f1"]]},
        "expect": [{"done": "f1", "by": 3.0}, {"done": "f0", "by": 8.0}]}
    # O2: an inner layer (timeout) cancels a queued job; the outer map/retry future must end too
    for lname, layer in (("map", {"kind": "map", "fn": [["app", "m"]], "err": None}), ("retry", RETRY), ("poll", POLL5),
                         ("throttle", {"kind": "throttle", "count": 2}), ("flat_map", {"kind": "flat_map", "fn": [["futarg", "done"]], "err": None})):
        out["O2/timeout+" + lname] = {
            "prog": {"setup": [["build", "ex", {"base": {"kind": "manual"}, "layers": [{"kind": "timeout", "t": 1.0}, layer]}]],
                     "threads": [[["sleep", 0.5], sub("f0"), ["add_cb", "f0", "cb0"]]],
                     "settle": 1.25, "final": [["state", "f0"]]},
            "expect": [{"done": "f0", "by": 1.5}]}
    # X: inner future cancelled behind the back of the derived one
    layers = dict(progs.SINGLE_LAYERS)
    layers["retry"] = [RETRY]
    layers["poll"] = [POLL5]
    layers["throttle"] = [{"kind": "throttle", "count": 2}]
    for lname, ls in sorted(layers.items()):
        if lname == "cos":
            continue
        out["X1/" + lname] = {
            "external_cancel": True,
            "prog": {"setup": [["build", "ex", {"base": {"kind": "manual"}, "layers": ls}]],
                     "threads": [[sub("f0"), ["add_cb", "f0", "cb0"]], [["sleep", 1.0], ["complete", "ex.base.j0", "cancel"]]],
                     "settle": 0.5, "final": [["state", "f0"]]},
            "expect": [{"done": "f0", "by": 1.0}]}
        for l2name, ls2 in sorted(layers.items()):
            if l2name in ("cos",) or (lname, l2name) not in (("map", "retry"), ("retry", "map"), ("throttle", "poll"), ("poll", "throttle"),
                                                             ("timeout", "flat_map"), ("flat_map", "timeout"), ("retry", "retry"), ("map", "map")):
                continue
            out["X2/%s+%s" % (lname, l2name)] = {
                "external_cancel": True,
                "prog": {"setup": [["build", "ex", {"base": {"kind": "manual"}, "layers": ls + ls2}]],
                         "threads": [[sub("f0"), ["add_cb", "f0", "cb0"]], [["sleep", 1.0], ["complete", "ex.base.j0", "cancel"]]],
                         "settle": 0.5, "final": [["state", "f0"]]},
                "expect": [{"done": "f0", "by": 1.0}]}
    # X5: a cancel() of the derived future that is REFUSED (poll cancel function vetoes), later the inner future is
    #     cancelled by someone else: the derived future must still end
    POLLV = {"kind": "poll", "interval": 5.0, "per_sub": {"f0.fn": {"after": None}}, "cancel": [["ret", False], ["ret", True]]}
    for lname, ls in sorted(layers.items()):
        if lname in ("cos", "poll"):
            continue
        outer = [dict(ls[0], tap=True)]
        out["X5/refused-then-external/" + lname] = {
            "external_cancel": True,
            "prog": {"setup": [["build", "ex", {"base": {"kind": "manual"}, "layers": [POLLV] + outer}]],
                     "threads": [[sub("f0"), ["add_cb", "f0", "cb0"], ["sleep", 0.25], ["run", "ex", 0], ["sleep", 0.25], ["cancel", "f0"]],
                                 [["sleep", 1.0], ["tapcancel", "ex.tap1", 0]]],
                     "settle": 0.5, "final": [["state", "f0"]]},
            "expect": [{"done": "f0", "by": 1.0}]}
    # flat_map: the future returned by fn is cancelled from outside / is already cancelled
    out["X3/flat_map-inner"] = {
        "external_cancel": True,
        "prog": {"setup": [["build", "ex", {"base": {"kind": "sync"}, "layers": [{"kind": "flat_map", "fn": [["fut", "src", "inner"]], "err": None}]}]],
                 "threads": [[sub("f0"), ["add_cb", "f0", "cb0"]], [["sleep", 1.0], ["complete", "inner", "cancel"]]],
                 "settle": 0.5, "final": [["state", "f0"]]},
        "expect": [{"done": "f0", "by": 1.0}]}
    out["X3/flat_map-cancelled"] = {
        "external_cancel": True,
        "prog": {"setup": [["build", "ex", {"base": {"kind": "sync"}, "layers": [{"kind": "flat_map", "fn": [["futarg", "cancelled"]], "err": None}]}]],
                 "threads": [[["sleep", 0.5], sub("f0"), ["add_cb", "f0", "cb0"]]],
                 "settle": 0.5, "final": [["state", "f0"]]},
        "expect": [{"done": "f0", "by": 0.5}]}
    # combinators: an input ends (by value / cancellation from outside) concurrently with the other
    combs = {
        "f_zip": ["f_zip", ["src", "a"], ["src", "b"]], "f_or": ["f_or", ["src", "a"], ["src", "b"]],
        "f_and": ["f_and", ["src", "a"], ["src", "b"]], "f_sequence": ["f_sequence", ["src", "a"], ["src", "b"]],
        "f_map": ["f_map", ["src", "a"], [["app", "m"]]], "f_flat_map": ["f_flat_map", ["src", "a"], [["fut", "src", "b"]]],
        "f_nocancel": ["f_nocancel", ["src", "a"]], "f_proxy": ["f_proxy", ["src", "a"]], "f_timeout": ["f_timeout", ["src", "a"], 50.0],
        "f_apply": ["f_apply", ["src", "a"], [["src", "b"]]],
        "f_zip(f_map)": ["f_zip", ["f_map", ["src", "a"], [["app", "m"]]], ["f_nocancel", ["src", "b"]]],
    }
    for cname, e in sorted(combs.items()):
        two = cname not in ("f_map", "f_nocancel", "f_proxy", "f_timeout")
        afirst = ["complete", "a", "fn", [["echo"]]] if cname == "f_apply" else ["complete", "a", "value", 1]
        out["M1/%s/value" % cname] = {
            "prog": {"setup": [["expr", "out", e], ["add_cb", "out", "cb"]],
                     "threads": [[["sleep", 1.0], afirst]] + ([[["sleep", 1.0], ["complete", "b", "value", 2]]] if two else []),
                     "settle": 0.5, "final": [["state", "out"]]},
            "expect": [{"done": "out", "by": 1.0}]}
        out["X4/%s/cancel" % cname] = {
            "external_cancel": True,
            "prog": {"setup": [["expr", "out", e], ["add_cb", "out", "cb"]],
                     "threads": [[["sleep", 1.0], ["complete", "a", "cancel"]]] + ([[["sleep", 1.0], ["complete", "b", "cancel"]]] if two else []),
                     "settle": 0.5, "final": [["state", "out"]]},
            "expect": [{"done": "out", "by": 1.0}]}
    return out


def done_time(s, fut):
    """Earliest virtual time at which `fut` is known to be done: its recorded callback."""
    for ev in s.events:
        if ev[3] == "cb" and ev[4]["fut"] == fut:
            return ev[1]
    return None


def evaluate(case):
    in_loop = {"n": 0}

    def hook(s, vt):
        pass

    s, w = progs.run_case(case)
    info = {"end": s.end_reason, "steps": s.steps, "preemptions": s.preemptions,
            "in_window": bool(getattr(s, "preempted_in_loop", 0)), "external": bool(case.get("external_cancel"))}
    viols = []
    name = case.get("entry", "random")

    def bad(sig, **d):
        d["entry"] = name
        viols.append({"signature": "C03:%s:%s" % (sig, case.get("sigkey", name.split("/")[0] + "/" + name.split("/")[1] if "/" in name else name)), "detail": d})

    if s.end_reason != "done":
        if s.end_reason == "steps":
            info["inconclusive"] = True
        else:
            bad("run-ended-%s" % s.end_reason, stuck=getattr(s, "stuck_clients", None), threads=s.final_threads)
        return viols, info
    h = world.History(s, w)
    finals = dict((o["op"][1], o["result"]) for o in h.oplist("state"))
    for ex in case.get("expect", []):
        if "done" in ex:
            f = ex["done"]
            t = done_time(s, f)
            st = finals.get(f)
            st = st[1] if st and st[0] == "ok" else None
            if t is None:
                if st is not None and not st["done"]:
                    bad("lost", fut=f, by=ex["by"], final=st)
                elif st is None:
                    bad("lost", fut=f, by=ex["by"], final=finals.get(f))
                else:
                    bad("callback-never-ran", fut=f, final=st)
            elif t > ex["by"] + EPS:
                bad("late", fut=f, by=ex["by"], at=t)
        elif "event" in ex:
            t = None
            for ev in s.events:
                if ev[3] == ex["event"] and all(ev[4].get(k) == v for k, v in ex["match"].items()):
                    t = ev[1]
                    break
            if t is None:
                bad("event-missing:" + ex["event"], expect=ex)
            elif t > ex["by"] + EPS:
                bad("event-late:" + ex["event"], expect=ex, at=t)
    return viols, info


def nontrivial(info):
    return (info.get("preemptions", 0) >= 1 and info.get("in_window")) or info.get("external")


def account(ctx, case, viols, info, extra=()):
    if info.get("inconclusive"):
        ctx.inconclusive += 1
    cls = ["end:" + info["end"], "preempt:%d" % min(info.get("preemptions", 0), 3), "in_window:%s" % info.get("in_window"),
           "external_cancel:%s" % info.get("external")] + list(extra)
    ctx.case(case, nontrivial(info), cls, sample={"case": case, "steps": info.get("steps")})
    new = False
    for v in viols:
        if ctx.violation(v["signature"], case, v["detail"]):
            new = True
    return new


def shards(tier, seed):
    cat = sorted(catalog())
    specs = []
    per = 2 if tier == "quick" else 1
    for i in range(0, len(cat), per):
        specs.append({"mode": "sweep", "entries": cat[i:i + per], "double": tier == "thorough"})
    n = 200 if tier == "quick" else 4000
    for i in range(8):
        specs.append({"mode": "random", "seed": seed * 1000 + i, "n": n})
    return specs


def case_strategy():
    """Random stacks (as C01, depth<=4) with the bound from the timed reference model."""
    from hypothesis import strategies as st
    import gen
    from checks import c01

    @st.composite
    def cases(draw):
        c = draw(c01.case_strategy(4))
        prog = c["prog"]
        stack = prog["setup"][0][2]
        model = models.StackModel("ex", stack)
        throttled = any(l["kind"] == "throttle" and l["count"] is not None for l in stack["layers"])
        total = 0.0
        per = {}
        for t in prog["threads"]:
            new = []
            for op in t:
                m = model.run(op[2], op[3])
                per[op[2]] = m
                total += m["elapsed"]
                new.extend([op, ["add_cb", op[2], "cb_" + op[2]]])
            t[:] = new
        expect = []
        for f, m in per.items():
            if m["outcome"].kind in ("pending",):
                continue
            expect.append({"done": f, "by": total if throttled else m["elapsed"]})
        prog["settle"] = total + 1.0
        c["expect"] = expect
        c["entry"] = "random"
        c["sigkey"] = "random:" + "+".join(sorted(set(l["kind"] for l in stack["layers"])))
        return c

    return cases()


def _evaluate_tracking(case):
    """evaluate() with the worker-window tracker installed."""
    import vsched

    state = {"hit": 0}

    def hook(s, vt):
        # a tape-forced switch is about to be considered at this point: note whether some
        # library worker thread is currently inside its check/wait/clear loop code
        if s.tpos < len(s.tape) and s.run_left == 0:
            for t in s.threads:
                if not t.client and t is not vt and t.loc and t.loc[1] in LOOP_FUNCS and not t.done:
                    state["hit"] += 1
                    break
            if not vt.client and vt.loc and vt.loc[1] in LOOP_FUNCS:
                state["hit"] += 1

    orig = progs.run_case

    def run_case(c, **kw):
        s, w = orig(c, point_hook=hook, **kw)
        s.preempted_in_loop = state["hit"]
        return s, w

    progs.run_case = run_case
    try:
        return evaluate(case)
    finally:
        progs.run_case = orig


def run_shard(spec, ctx):
    if spec["mode"] == "sweep":
        cat = catalog()
        for name in spec["entries"]:
            ent = cat[name]
            extra = {"expect": ent["expect"], "entry": name, "external_cancel": ent.get("external_cancel", False)}
            progs.sweep(ctx, ent["prog"], name, _evaluate_tracking, account, double=spec.get("double"), extra=extra)
    else:
        progs.random_search(ctx, spec, case_strategy(), _evaluate_tracking, account)


def replay(case):
    viols, info = _evaluate_tracking(case)
    return viols
