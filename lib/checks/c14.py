"""C14 - f_and / f_or are `and` / `or` folds over the order in which inputs finish."""
import itertools

import harness
import combo
import progs

PROPERTY = "C14"
LEVEL = "exploration"
RULE = (
    "cases = (f_or|f_and, argument list with optional duplicates / f_nocancel wrappers / already-done inputs, outcome per input "
    "from {truthy, falsy values of several types, exception, cancelled, never}, completion events distributed over 1-3 threads, "
    "optional cancel of the output, tape). Enumerated: all outcome assignments x all completion orders for n<=4 (thorough: n<=5), "
    "pre-done masks for n<=3, duplicates; Hypothesis: concurrent completions with tapes. Oracle: the output equals the and/or fold of at "
    "least one linearisation consistent with the real-time order of the completing calls; every loser gets cancel() after the "
    "decision, none before, none under f_nocancel. Non-trivial = >=2 inputs finishing out of argument order, or overlapping completions, "
    "or a duplicate. Distinct = digest of the case."
)
ASSUMPTIONS = ["values/exceptions with raising or inconsistent __bool__ are not generated",
               "inputs already done at call time are taken to finish in argument order"]

TRUTHY = [1, "x", [0], True]
FALSY = [0, "", [], None, False]


def expr_of(case):
    """The nocancel wrapper of an input is built once, so that a repeated
    argument is the *same* future object, as in f_or(x, x, y)."""
    args = []
    for i in case["args"]:
        if i in case.get("nocancel", []):
            args.append(["f_nocancel1", combo.src(i)])
        else:
            args.append(["src", combo.src(i)])
    return [case["comb"]] + args


def truthy(outcome):
    return outcome[0] == "v" and bool(outcome[1])


def fold(case, lin):
    """Expected output for one linearisation (list of events)."""
    comb = case["comb"]
    distinct = []
    for i in case["args"]:
        if i not in distinct:
            distinct.append(i)
    if len(case["args"]) == 1:
        distinct = list(case["args"])
    finished = set()
    decided = None
    seq = []
    pre = case.get("predone", {})
    for i in distinct:
        if str(i) in pre and pre[str(i)][0] != "running":
            seq.append(("c", i, combo.outcome_of_spec(pre[str(i)], combo.src(i))))
    for ev in lin:
        if ev["kind"] == "x":
            seq.append(("x", ev))
        elif not ev["noop"]:
            seq.append(("c", ev["input"], combo.outcome_of_spec(ev["spec"], combo.src(ev["input"]))))
    x_expect = []
    for item in seq:
        if item[0] == "x":
            if decided is None:
                decided = ("c",)
                x_expect.append(True)
            else:
                x_expect.append(decided == ("c",))
            continue
        _, i, oc = item
        if i in finished:
            continue
        finished.add(i)
        if decided is not None:
            continue
        last = len(finished) == len(distinct)
        if comb == "f_or":
            if truthy(oc) or last:
                decided = oc
        else:
            if not truthy(oc) or last:
                decided = oc
    return decided if decided is not None else ("pending",), x_expect


def evaluate(case):
    single = len(case["args"]) == 1
    s, w, obs = combo.run(case, expr_of(case))
    viols = []
    info = {"end": obs["end"], "concurrent": combo.concurrent(obs["events"]), "steps": s.steps}

    def bad(sig, **detail):
        detail["observed"] = {"final": obs["final"], "cancel_calls": obs["cancel_calls"], "events": obs["events"]}
        viols.append({"signature": "C14:%s:%s" % (case["comb"], sig), "detail": detail})

    if obs["end"] != "done" or obs["unfinished"]:
        bad("hang", end=obs["end"], unfinished=obs["unfinished"])
        return viols, info
    cons = obs["construct"]
    if cons["result"][0] != "ok":
        bad("constructor-raised:%s" % cons["result"][1], result=cons["result"])
        return viols, info
    for rec in obs["logs"]:
        if rec[3] in ("KeyError", "AssertionError", "InvalidStateError", "TypeError", "AttributeError"):
            bad("internal-exception-logged:%s" % rec[3], log=rec)
    got = combo.out_state(obs["final"].get("out"))
    expected = []
    xres = [e["result"] for e in obs["events"] if e["kind"] == "x"]
    ok = False
    if any(r == ["ok", True] for r in xres):
        # A user cancel() of the output that returned True wins whatever race it
        # was in: the output must be (and stay) cancelled.
        expected = [("c",)]
        ok = got == ("c",)
    else:
        lin_events = [e for e in obs["events"] if e["kind"] != "x"]
        for lin in combo.linearisations(lin_events):
            exp, x_expect = fold(case, lin)
            if exp not in expected:
                expected.append(exp)
            if exp == got:
                ok = True
                break
        if ok and xres and got == ("pending",):
            ok = False  # cancel() of a pending plain future cannot return False
    info["expected"] = expected[:4]
    info["got"] = got
    if not ok:
        bad("wrong-outcome:%s-for-%s" % (got[0], "|".join(sorted(set(e[0] for e in expected)))), expected=expected[:6], got=got)
    # cancel fan-out
    distinct = sorted(set(case["args"]))
    pre = dict((k, v) for k, v in case.get("predone", {}).items() if v[0] != "running")
    nocancel = set(case.get("nocancel", []))
    decided = got[0] != "pending"
    completed = set(int(i) for i in pre) | set(e["input"] for e in obs["events"] if e["kind"] == "c" and not e["noop"])
    if not single:
        # earliest possible decision
        d0 = None
        cands = []
        if pre:
            cands.append(cons["call_seq"])
        evs = [e for e in obs["events"] if not e.get("pre")]
        for e in evs:
            if e["kind"] == "x":
                cands.append(e["call"])
                continue
            oc = combo.outcome_of_spec(e["spec"], "")
            if (case["comb"] == "f_or") == truthy(oc) and (case["comb"] == "f_or" or True):
                if case["comb"] == "f_or" and truthy(oc):
                    cands.append(e["call"])
            if case["comb"] == "f_and" and not truthy(oc):
                cands.append(e["call"])
            others = [j for j in distinct if j != e["input"]]
            if all(str(j) in pre or any(o["kind"] == "c" and o["input"] == j and o["call"] < (e["ret"] or 10 ** 12) for o in evs) for j in others):
                cands.append(e["call"])
        d0 = min(cands) if cands else None
        for i in distinct:
            calls = obs["cancel_calls"].get(combo.src(i), [])
            if i in nocancel and calls and set(case["args"]).__len__() >= 1 and case["args"].count(i) == 1:
                bad("cancel-reached-nocancel-input", input=i)
            if calls and (d0 is None or min(calls) < d0):
                bad("input-cancelled-before-decision", input=i, first_cancel=min(calls), earliest_decision=d0)
            if decided and i not in completed and i not in nocancel and not calls:
                bad("pending-input-not-cancelled", input=i)
            if not decided and calls:
                bad("input-cancelled-while-output-pending", input=i)
    else:
        same = [o for o in world_ops(obs) if o[0] == "same"]
    return viols, info


def world_ops(obs):
    return []


def nontrivial(case, info):
    if len(set(case["args"])) < len(case["args"]):
        return True
    if info.get("concurrent"):
        return True
    order = [e[1] for t in case["threads"] for e in t if e[0] == "c"]
    return len(order) >= 2 and order != sorted(order)


def account(ctx, case, viols, info, extra=()):
    cls = ["comb:" + case["comb"], "n:%d" % case["n"], "concurrent:%s" % info.get("concurrent"),
           "out:%s" % (info.get("got") or ("?",))[0]] + list(extra)
    ctx.case(case, nontrivial(case, info), cls, sample={"case": case, "expected_any_of": info.get("expected"), "got": info.get("got")})
    new = False
    for v in viols:
        if ctx.violation(v["signature"], case, v["detail"]):
            new = True
    return new


KINDS = ["T", "F", "E", "C", "N"]
# (kind "R" - an input that is RUNNING: it refuses cancel() but must still be asked - is added by the concurrent catalogue and the random generator)


def spec_of(kind, variant=0):
    if kind == "T":
        return ["value", TRUTHY[variant % len(TRUTHY)]]
    if kind == "F":
        return ["value", FALSY[variant % len(FALSY)]]
    if kind == "E":
        return ["error", ("E1", "CE", "EF")[variant % 3]]  # (also: a falsy exception instance; a CancelledError INSTANCE as the failure)
    if kind == "C":
        return ["cancel"]
    return None


def enum_cases(maxn, part, parts):
    idx = 0
    for comb in ("f_or", "f_and"):
        for n in range(1, maxn + 1):
            for kinds in itertools.product(KINDS, repeat=n):
                live = [i for i in range(n) if kinds[i] != "N"]
                for order in itertools.permutations(live):
                    idx += 1
                    if idx % parts != part:
                        continue
                    evs = [["c", i] + spec_of(kinds[i], idx + i) for i in order]
                    yield {"comb": comb, "n": n, "args": list(range(n)), "threads": [evs], "tape": []}
    # pre-done masks, duplicates, nocancel, output cancel at every position (n<=3)
    for comb in ("f_or", "f_and"):
        for n in range(2, 4):
            for kinds in itertools.product(["T", "F", "E", "C"], repeat=n):
                for mask in range(1, 2 ** n):
                    idx += 1
                    if idx % parts != part:
                        continue
                    pre = dict((str(i), spec_of(kinds[i], idx + i)) for i in range(n) if mask >> i & 1)
                    rest = [i for i in range(n) if not mask >> i & 1]
                    for order in itertools.permutations(rest):
                        evs = [["c", i] + spec_of(kinds[i], idx) for i in order]
                        yield {"comb": comb, "n": n, "args": list(range(n)), "predone": pre, "threads": [evs], "tape": []}
                # duplicate first input, nocancel on one input, cancel of the output at each position
                idx += 1
                if idx % parts != part:
                    continue
                for order in itertools.permutations(range(n)):
                    evs = [["c", i] + spec_of(kinds[i], idx) for i in order]
                    yield {"comb": comb, "n": n, "args": [0] + list(range(n)), "threads": [evs], "tape": []}
                    yield {"comb": comb, "n": n, "args": list(range(n)) + [n - 1], "predone": {"0": spec_of(kinds[0], idx)},
                           "threads": [[e for e in evs if e[1] != 0]], "tape": []}
                    for nc in range(n):
                        yield {"comb": comb, "n": n, "args": list(range(n)), "nocancel": [nc], "threads": [evs[:-1]], "tape": []}
                    for pos in range(n + 1):
                        yield {"comb": comb, "n": n, "args": list(range(n)), "threads": [evs[:pos] + [["x"]] + evs[pos:]], "tape": []}


DEEP = {"f_or": ("TF", "TE"), "f_and": ("FT", "ET", "CT")}


def conc_catalog():
    """Two inputs completed by two threads at the same instant; a third input that is pending or running."""
    out = {}
    pairs = [("T", "F"), ("F", "T"), ("T", "T"), ("F", "F"), ("E", "T"), ("T", "E"), ("C", "T"), ("F", "C")]
    for comb in ("f_or", "f_and"):
        for a, b in pairs:
            out["%s/%s%s" % (comb, a, b)] = {"comb": comb, "n": 2, "args": [0, 1],
                                             "threads": [[["c", 0] + spec_of(a, 0)], [["c", 1] + spec_of(b, 1)]], "tape": []}
        for third in ("N", "R"):
            pre = {"2": ["running"]} if third == "R" else {}
            out["%s/TF+%s" % (comb, third)] = {"comb": comb, "n": 3, "args": [0, 1, 2], "predone": pre,
                                               "threads": [[["c", 0] + spec_of("T", 0)], [["c", 1] + spec_of("F", 1)], [["x"]]], "tape": []}
    # the output is cancelled while nothing else happens: every pending input - running ones included - must be asked
    for comb in ("f_or", "f_and"):
        for kinds in (("N", "R"), ("R", "R"), ("R", "N"), ("N", "N", "R")):
            pre = dict((str(i), ["running"]) for i, k in enumerate(kinds) if k == "R")
            out["%s/x-only-%s" % (comb, "".join(kinds))] = {"comb": comb, "n": len(kinds), "args": list(range(len(kinds))), "predone": pre,
                                                            "threads": [[["x"]], []], "tape": [], "no_deep": True}
    return out


def shards(tier, seed):
    parts = 12
    maxn = 4 if tier == "quick" else 5
    specs = [{"mode": "enum", "maxn": maxn, "part": i, "parts": parts} for i in range(parts)]
    cc = sorted(conc_catalog())
    for i in range(0, len(cc), 4):
        specs.append({"mode": "conc", "entries": cc[i:i + 4]})
    for name in cc:
        if name.split("/")[-1] in DEEP.get(name.split("/")[0], ()):
            for part in range(3):
                specs.append({"mode": "conc3", "entry": name, "part": part, "parts": 3, "window": 13 if tier == "quick" else 18})
    specs.append({"mode": "reenter"})
    n = 300 if tier == "quick" else 5000
    for i in range(8):
        specs.append({"mode": "random", "seed": seed * 1000 + i, "n": n})
    return specs


def case_strategy():
    from hypothesis import strategies as st
    import gen

    @st.composite
    def cases(draw):
        comb = draw(st.sampled_from(["f_or", "f_and"]))
        n = draw(st.integers(2, 5))
        kinds = [draw(st.sampled_from(KINDS)) for _ in range(n)]
        args = list(range(n))
        if draw(st.integers(0, 4)) == 0:
            args.insert(draw(st.integers(0, n)), draw(st.integers(0, n - 1)))
        nocancel = [i for i in range(n) if draw(st.integers(0, 5)) == 0]
        pre = {}
        for i in range(n):
            if kinds[i] != "N" and draw(st.integers(0, 5)) == 0:
                pre[str(i)] = spec_of(kinds[i], draw(st.integers(0, 4)))
            elif kinds[i] == "N" and draw(st.integers(0, 2)) == 0:
                pre[str(i)] = ["running"]
        nthreads = draw(st.integers(2, 3))
        threads = [[] for _ in range(nthreads)]
        order = draw(st.permutations([i for i in range(n) if kinds[i] != "N" and str(i) not in pre]))
        for i in order:
            threads[draw(st.integers(0, nthreads - 1))].append(["c", i] + spec_of(kinds[i], draw(st.integers(0, 4))))
        if draw(st.integers(0, 3)) == 0:
            t = draw(st.integers(0, nthreads - 1))
            threads[t].insert(draw(st.integers(0, len(threads[t]))), ["x"])
        return {"comb": comb, "n": n, "args": args, "nocancel": nocancel, "predone": pre, "threads": threads,
                "tape": draw(gen.tapes(6)), "clock": "exact"}

    return cases()


def reenter_cases():
    """One input decides at once; every other input stays pending (it is a loser: the combinator cancels it) and carries a user
    done-callback that calls cancel() on the OUTPUT - from inside the combinator's cancellation of that loser."""
    out = []
    for comb in ("f_and", "f_or"):
        for n in (2, 3, 4):
            for pos in range(n):
                for how in ("value", "error"):
                    if how == "value":
                        spec = ["value", TRUTHY[pos % len(TRUTHY)] if comb == "f_or" else FALSY[pos % len(FALSY)]]
                    elif comb == "f_and":
                        spec = ["error", "E1"]
                    else:
                        continue  # (an error does not decide f_or while other inputs are pending)
                    out.append({"reenter": True, "comb": comb, "n": n, "decider": pos, "spec": spec})
    return out


def eval_reenter(case):
    import progs
    import world
    n = case["n"]
    expr = [case["comb"]] + [["src", "a%d" % i] for i in range(n)]
    setup = [["expr", "out", expr]] + [["add_cb", "a%d" % i, "re%d" % i, ["op", ["cancel", "out"]]] for i in range(n) if i != case["decider"]]
    prog = {"setup": setup, "threads": [[["complete", "a%d" % case["decider"]] + list(case["spec"])]], "settle": 1,
            "final": [["state", "out"]] + [["state", "a%d" % i] for i in range(n)]}
    s, w = progs.run_case({"prog": prog, "tape": case.get("tape", []), "clock": "exact", "max_vtime": 100})
    info = {"end": s.end_reason, "steps": s.steps}
    viols = []

    def bad(sig, **d):
        viols.append({"signature": "C14:%s:reenter:%s" % (case["comb"], sig), "detail": d})

    if s.end_reason != "done":
        bad("run-ended-%s" % s.end_reason)
        return viols, info
    h = world.History(s, w)
    nested = [o for o in h.oplist("cancel") if o["op"][1] == "out"]
    st = dict((o["op"][1], o["result"][1]) for o in h.oplist("state") if o["result"][0] == "ok")
    info["got"] = st.get("out")
    for o in nested:
        if o["result"] != ["ok", False]:
            bad("output-cancellable-after-the-decision", result=o["result"], thread=o["thread"])
    losers = [i for i in range(n) if i != case["decider"]]
    for i in losers:
        if not (st.get("a%d" % i) or {}).get("cancelled"):
            bad("loser-not-cancelled", input=i)
    if len(nested) != len(losers):
        bad("callbacks-of-losers-ran-%d-times" % len(nested), expected=len(losers))
    o = st.get("out") or {}
    if case["spec"][0] == "value":
        if not (o.get("done") and not o.get("cancelled") and o.get("value") == world.jsonable(world._thaw(case["spec"][1]))):
            bad("wrong-outcome", out=o, expected=case["spec"])
    elif not (o.get("done") and not o.get("cancelled") and "exc" in o):
        bad("wrong-outcome", out=o, expected=case["spec"])
    return viols, info


def run_shard(spec, ctx):
    if spec["mode"] == "reenter":
        cases = reenter_cases()
        for c in cases:
            v, info = eval_reenter(c)
            ctx.case(c, True, ["reenter", "comb:" + c["comb"]], sample={"case": c, "got": info.get("got")})
            for x in v:
                ctx.violation(x["signature"], c, x["detail"])
        ctx.exhaustive.append({"domain": "a loser's done-callback cancels the output: comb x n<=4 x deciding position x value/error", "size": len(cases), "complete": True})
        return
    if spec["mode"] == "enum":
        k = 0
        for case in enum_cases(spec["maxn"], spec["part"], spec["parts"]):
            viols, info = evaluate(case)
            account(ctx, case, viols, info, ["enum"])
            k += 1
        ctx.exhaustive.append({"domain": "f_or/f_and: outcome kinds^n x completion orders, n<=%d; pre-done masks, duplicates, nocancel, output-cancel positions n<=3 (part %d/%d)" % (spec["maxn"], spec["part"], spec["parts"]),
                               "size": k, "complete": True})
    elif spec["mode"] == "conc":
        cat = conc_catalog()
        for name in spec["entries"]:
            base = cat[name]
            v, info = evaluate(base)
            account(ctx, base, v, info, ["conc"])
            n = info.get("steps", 0)
            count = 0
            w = spec.get("window", 10)
            for i in range(n + 1):
                for p in (0, 1):
                    c = dict(base, tape=[[i, p]])
                    v, info = evaluate(c)
                    account(ctx, c, v, info, ["conc1"])
                    count += 1
            ctx.exhaustive.append({"domain": "concurrent completion of %s: every single pre-emption" % name, "size": count, "complete": True})
    elif spec["mode"] == "conc3":
        # three pre-emptions ("B starts, A decides, B publishes first") for the pairs in which the first finisher decides
        base = conc_catalog()[spec["entry"]]
        v, info = evaluate(base)
        n = info.get("steps", 0)
        w = spec["window"]
        count = 0
        for i in range(n + 1):
            if i % spec["parts"] != spec["part"]:
                continue
            for j in range(w):
                for k in range(w):
                    c = dict(base, tape=[[i, 0], [j, 0], [k, 0]])
                    v, info = evaluate(c)
                    account(ctx, c, v, info, ["conc3"])
                    count += 1
        ctx.exhaustive.append({"domain": "concurrent completion of %s: every triple pre-emption with windows %d,%d (part %d/%d)" % (spec["entry"], w, w, spec["part"], spec["parts"]),
                               "size": count, "complete": True})
    else:
        progs.random_search(ctx, spec, case_strategy(), evaluate, account)


def replay(case):
    if case.get("reenter"):
        return eval_reenter(case)[0]
    viols, info = evaluate(case)
    return viols
