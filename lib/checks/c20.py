"""C20 - metrics: gauges return to reality at quiescence, counters match events.

A stand-in prometheus_client (lib/standin) is put on the import path before
more_executors is imported, so PrometheusMetrics is the live implementation.
"""
import os

os.environ["VERIF_PROM"] = "1"

import harness  # noqa: E402
import progs  # noqa: E402
import world  # noqa: E402

PROPERTY = "C20"
LEVEL = "exploration"
RULE = (
    "cases = histories over a named stack (1-4 layers over a manual base, a recording tap below every layer) or over f_* combinators: "
    "submissions with outcome scripts, manual jobs run / failed / cancelled behind the back, cancels while queued in a throttle, "
    "between retries and in flight, timeouts that fire, at most one shutdown (catalogue: concurrent shutdowns, submissions refused "
    "after shutdown, a delegate whose shutdown() raises); metrics are sampled (together with the state of every future) at quiescent "
    "points in the middle and at the end; tape. Oracle = a model computed from the recorded history, never from the library: "
    "future_inprogress / future_total / future_cancel / future_error for every layer that sees each submission exactly once, "
    "exec_inprogress / exec_total per layer, retry_queue (= futures of that retry layer not yet done), throttle_queue (= accepted, "
    "not handed over, not cancelled), retry_total (= delegate submissions beyond the first per future), poll_total / poll_error (= "
    "poll calls / raising poll calls), timeout and shutdown_cancel (= successful cancels only); no gauge child below 0 at any time. "
    "Plus a Hypothesis RuleBasedStateMachine (step-wise engine) over one named retry or throttle layer: rules submit / run / cancel / "
    "cancel behind the back / advance / shutdown, every gauge and counter compared with reality after EVERY rule. Non-trivial = the "
    "history contains a cancel, a timeout or a retry. Distinct = digest of the case."
)
ASSUMPTIONS = [
    "exec_inprogress follows the documented meaning (created minus first shutdown), not liveness of the object",
    "per-layer future metrics are only modelled for layers above (and including) the topmost retry/throttle layer, where every submission creates exactly one future",
]
NS = "more_executors_"
TYPE = {"map": "map", "flat_map": "flat_map", "retry": "retry", "poll": "poll", "throttle": "throttle", "timeout": "timeout", "cos": "cancel_on_shutdown"}


def key(metric, **labels):
    return NS + metric + "{" + ",".join("%s=%s" % kv for kv in sorted(labels.items())) + "}"


def evaluate(case):
    prog = case["prog"]
    s, w = progs.run_case(case)
    info = {"end": s.end_reason, "steps": s.steps, "preemptions": s.preemptions}
    viols = []

    def bad(sig, **d):
        viols.append({"signature": "C20:" + sig, "detail": d})

    if s.end_reason != "done":
        if s.end_reason == "steps":
            info["inconclusive"] = True
        else:
            bad("run-ended-%s" % s.end_reason, stuck=getattr(s, "stuck_clients", None))
        return viols, info
    h = world.History(s, w)
    ops = h.oplist()
    stack = None
    for op in prog["setup"]:
        if op[0] == "build":
            stack = op[2]
    layers = stack["layers"] if stack else []
    names = [l["name"] for l in layers]
    # index of the topmost retry/throttle layer: layers from there upwards see each submission exactly once
    hold = max([i for i, l in enumerate(layers) if l["kind"] in ("retry", "throttle")] or [0])
    samples = [o for o in ops if o["op"][0] == "metrics" and o["result"][0] == "ok"]
    submits = [o for o in ops if o["op"][0] == "submit" and o["op"][1] == "ex"]
    sdown = [o for o in ops if o["op"][0] == "shutdown"]
    nt = any(o["op"][0] == "cancel" and o["result"] == ["ok", True] for o in ops)
    for smp in samples:
        m = smp["result"][1]
        at = smp["call_seq"]

        def val(k):
            return m.get(k, [0, 0])[0]

        for k, (v, mn) in m.items():
            if "inprogress" in k or "queue" in k:
                if mn < 0:
                    bad("gauge-went-negative:%s" % k.split("{")[0][len(NS):], key=k, minimum=mn)
        # states sampled just before
        states = {}
        for o in ops:
            if o["op"][0] == "state" and o["call_seq"] < at and o["result"][0] == "ok":
                states[o["op"][1]] = o["result"][1]
        accepted = [o for o in submits if o["result"] == ["ok", "submitted"] and o["ret_seq"] < at]
        pending = [o for o in accepted if not states.get(o["op"][2], {}).get("done")]
        cancelled = [o for o in accepted if states.get(o["op"][2], {}).get("cancelled")]
        failed = [o for o in accepted if states.get(o["op"][2], {}).get("done") and "exc" in states.get(o["op"][2], {})]
        # (a shutdown() that raised - its delegate's shutdown did - has still shut this executor down)
        shut = any(o["ret_seq"] and o["ret_seq"] < at for o in sdown)
        events = [e for e in s.events if e[0] < at]
        for i, L in enumerate(layers):
            T, N = TYPE[L["kind"]], L["name"]
            exp_exec = 0 if shut else 1
            if val(key("exec_inprogress", type=T, executor=N)) != exp_exec:
                bad("exec_inprogress:%s" % T, got=val(key("exec_inprogress", type=T, executor=N)), expected=exp_exec)
            if val(key("exec_total", type=T, executor=N)) != 1:
                bad("exec_total:%s" % T, got=val(key("exec_total", type=T, executor=N)))
            outermost = i == len(layers) - 1 or all(l["kind"] == "cos" for l in layers[i + 1:])
            if i >= hold and L["kind"] != "cos":
                checks = [("future_total", len(accepted))]
                if outermost:
                    # inner futures may end differently from the outer one (e.g. outer cancelled while polling)
                    checks += [("future_inprogress", len(pending)), ("future_cancel", len(cancelled)), ("future_error", len(failed))]
                for metric, want in checks:
                    got = val(key(metric, type=T, executor=N))
                    if got != want:
                        bad("%s:%s" % (metric, T), got=got, expected=want, layer=i)
            below = "ex.tap%d" % i
            handed = [e for e in events if e[3] == "tap_submit" and e[4]["tap"] == below]
            if L["kind"] == "retry" and i >= hold:
                got = val(key("retry_queue", executor=N))
                if got != len(pending):
                    bad("retry_queue", got=got, expected=len(pending))
                per = {}
                for e in handed:
                    per[e[4]["fn"]] = per.get(e[4]["fn"], 0) + 1
                want = sum(v - 1 for v in per.values())
                got = val(key("retry_total", executor=N))
                if got != want:
                    bad("retry_total", got=got, expected=want)
                if want:
                    nt = True
            if L["kind"] == "throttle" and i >= hold:
                handed_fns = set(e[4]["fn"] for e in handed)
                queued = [o for o in accepted if o["op"][2] + ".fn" not in handed_fns and not states.get(o["op"][2], {}).get("cancelled")]
                got = val(key("throttle_queue", executor=N))
                if got != len(queued):
                    bad("throttle_queue", got=got, expected=len(queued))
            if L["kind"] == "poll":
                pc = [e for e in events if e[3] == "poll_call" and e[4]["fn"] == "ex.L%d.poll" % i]
                pe = [e for e in events if e[3] == "poll_raise" and e[4]["fn"] == "ex.L%d.poll" % i]
                pr = [e for e in events if e[3] in ("poll_raise", "poll_ret") and e[4]["fn"] == "ex.L%d.poll" % i]
                got = val(key("poll_total", executor=N))
                if got not in (len(pr), len(pc)):
                    bad("poll_total", got=got, expected=len(pr))
                if val(key("poll_error", executor=N)) != len(pe):
                    bad("poll_error", got=val(key("poll_error", executor=N)), expected=len(pe))
            if L["kind"] == "timeout":
                ok = [e for e in events if e[3] == "lcancel_ret" and e[2] == "TimeoutExecutor-%s" % N and e[4]["result"] is True and e[4].get("cls") is None]
                # count outermost cancel() calls made by the timeout thread that returned True
                # ... and that were the FIRST successful cancel of that future: cancel() on a future somebody else has already
                # cancelled also returns True, but that is not a time-out.  (Somebody else's cancel at the very same virtual
                # instant may fall between the timeout thread's done() check and its cancel(): either count is accepted.)
                depth = 0
                n_ok = 0
                n_tie = 0
                already = {}
                call_t = None
                for e in events:
                    if e[3] == "lcancel_ret" and e[4]["result"] is True and e[2] != "TimeoutExecutor-%s" % N:
                        already.setdefault(e[4]["fid"], e[1])
                    if e[2] != "TimeoutExecutor-%s" % N:
                        continue
                    if e[3] == "lcancel_call":
                        if depth == 0:
                            call_t = e[1]
                        depth += 1
                    elif e[3] == "lcancel_ret":
                        depth -= 1
                        if depth == 0 and e[4]["result"] is True:
                            if e[4]["fid"] not in already:
                                n_ok += 1
                            elif already[e[4]["fid"]] >= call_t - 1e-3:  # (same virtual instant: the clock ticks 1e-7 per reading)
                                n_tie += 1
                        if e[4]["result"] is True:
                            already.setdefault(e[4]["fid"], e[1])
                got = val(key("timeout", executor=N))
                if not (n_ok <= got <= n_ok + n_tie):
                    bad("timeout-counter", got=got, expected=[n_ok, n_ok + n_tie])
                if n_ok:
                    nt = True
            if L["kind"] == "cos" and i == len(layers) - 1 and shut:
                n_ok = 0
                for sd in [o for o in sdown if o["ret_seq"] < at]:  # (with concurrent shutdown() calls: whichever did the sweep)
                    depth = 0
                    for e in events:
                        if e[2] != sd["thread"] or not (sd["call_seq"] < e[0] < sd["ret_seq"]):
                            continue
                        if e[3] in ("lcancel_call", "fcancel_call"):
                            depth += 1
                        elif e[3] in ("lcancel_ret", "fcancel_ret"):
                            depth -= 1
                            # (cancel() also says True for a future that was cancelled already - by the user, a timeout, or born
                            # cancelled: that is not a future the shutdown cancelled)
                            if depth == 0 and e[4]["result"] is True and e[4].get("pre") not in ("CANCELLED", "CANCELLED_AND_NOTIFIED"):
                                n_ok += 1
                got = val(key("shutdown_cancel", executor=N))
                if got != n_ok:
                    bad("shutdown_cancel", got=got, expected=n_ok)
        # combinators
        for o in ops:
            if o["op"][0] == "expr" and o["ret_seq"] and o["ret_seq"] < at and o["result"][0] == "ok":
                pass
        if case.get("combs"):
            exprs = [o for o in ops if o["op"][0] == "expr" and o["result"][0] == "ok" and o["ret_seq"] < at]
            per_type = {}
            for o in exprs:
                t = o["op"][2][0][2:]
                st = states.get(o["op"][1], {})
                d = per_type.setdefault(t, {"total": 0, "pending": 0, "cancel": 0, "error": 0})
                d["total"] += 1
                d["pending"] += 0 if st.get("done") else 1
                d["cancel"] += 1 if st.get("cancelled") else 0
                d["error"] += 1 if (st.get("done") and "exc" in st) else 0
            for t, d in per_type.items():
                if t not in ("zip", "or", "and", "nocancel", "proxy"):
                    continue
                for metric, want in (("future_total", d["total"]), ("future_inprogress", d["pending"]), ("future_cancel", d["cancel"]), ("future_error", d["error"])):
                    got = val(key(metric, type=t, executor="default"))
                    if got != want:
                        bad("%s:%s" % (metric, t), got=got, expected=want)
    info["nt"] = nt
    info["samples"] = len(samples)
    return viols, info


def account(ctx, case, viols, info, extra=()):
    if info.get("inconclusive"):
        ctx.inconclusive += 1
    cls = ["end:" + info["end"], "nt:%s" % info.get("nt"), "samples:%s" % info.get("samples")] + list(extra)
    ctx.case(case, bool(info.get("nt")), cls, sample={"case": case})
    new = False
    for v in viols:
        if ctx.violation(v["signature"], case, v["detail"]):
            new = True
    return new


LAYER = {
    "map": lambda n: {"kind": "map", "fn": [["app", "m"]], "err": None, "name": n, "tap": True},
    "flat_map": lambda n: {"kind": "flat_map", "fn": [["futarg", "done"]], "err": None, "name": n, "tap": True},
    "flat_map-cancelled": lambda n: {"kind": "flat_map", "fn": [["futarg", "cancelled"]], "err": None, "name": n, "tap": True},
    "retry": lambda n: {"kind": "retry", "policy": {"type": "exc", "max_attempts": 3, "sleep": 0.5, "exponent": 1.0, "base": ["E0"]}, "name": n, "tap": True},
    "poll": lambda n: {"kind": "poll", "interval": 0.5, "per_sub": {}, "calls": [{}, {}, {"raise": "E2"}, {}], "name": n, "tap": True},
    "throttle": lambda n: {"kind": "throttle", "count": 1, "name": n, "tap": True},
    "timeout": lambda n: {"kind": "timeout", "t": 1.0, "name": n, "tap": True},
    "timeout-long": lambda n: {"kind": "timeout", "t": 5000.0, "name": n, "tap": True},
    "cos": lambda n: {"kind": "cos", "name": n, "tap": True},
}


def sample_ops(fnames):
    return [["state", f] for f in fnames] + [["metrics"]]


def case_strategy():
    from hypothesis import strategies as st
    import gen

    @st.composite
    def cases(draw):
        if draw(st.integers(0, 5)) == 0:
            # combinators over source futures
            n = draw(st.integers(1, 4))
            setup, names = [], []
            for i in range(n):
                t = draw(st.sampled_from(["f_zip", "f_or", "f_and", "f_nocancel", "f_proxy"]))
                e = [t, ["src", "a%d" % i]] + ([["src", "b%d" % i]] if t in ("f_zip", "f_or", "f_and") else [])
                setup.append(["expr", "x%d" % i, e])
                names.append("x%d" % i)
            acts = []
            for i in range(n):
                acts.append(draw(st.sampled_from([["complete", "a%d" % i, "value", 1], ["complete", "a%d" % i, "error", "E1"], ["cancel", "x%d" % i],
                                                  ["complete", "a%d" % i, "cancel"], ["nop"]])))
                acts.append(draw(st.sampled_from([["complete", "b%d" % i, "value", 0], ["nop"], ["complete", "b%d" % i, "error", "E2"]])))
            prog = {"setup": setup, "threads": [acts], "settle": 1, "final": sample_ops(names)}
            return {"prog": prog, "combs": True, "tape": [], "clock": "exact"}
        kinds = draw(st.lists(st.sampled_from(sorted(LAYER)), min_size=1, max_size=4))
        layers = [LAYER[k]("n%d" % i) for i, k in enumerate(kinds)]
        nsub = draw(st.integers(1, 4))
        fnames = ["f%d" % i for i in range(nsub)]
        t0 = []
        for f in fnames:
            t0.append(["submit", "ex", f, {"script": draw(st.sampled_from([[["tag"]], [["raise", "E0"], ["tag"]], [["raise", "E0"], ["raise", "E0"], ["raise", "E0"]], [["raise", "E2"]],
                                                                       [["raise", "CE"]]]))}])  # CE: fails WITH a CancelledError instance
        t0.append(["sleep", 0.01])
        acts = []
        for _ in range(draw(st.integers(1, 6))):
            d = draw(st.sampled_from([0, 0.1, 0.25, 0.6, 1.5]))
            if d:
                acts.append(["sleep", d])
            j = draw(st.integers(0, 2 * nsub))
            acts.append(draw(st.sampled_from([["run", "ex", j], ["run", "ex", j], ["runall", "ex"], ["cancel", draw(st.sampled_from(fnames))],
                                              ["complete", "ex.base.j%d" % j, "cancel"]])))
        mid = [["sleep", 0.05]] + sample_ops(fnames)
        cut = draw(st.integers(0, len(acts)))
        t0 += acts[:cut] + mid + acts[cut:]
        final = []
        if draw(st.booleans()):
            final += [["runall", "ex"], ["sleep", 2.0], ["runall", "ex"], ["sleep", 2.0], ["runall", "ex"], ["sleep", 1.0]]
        if draw(st.booleans()):
            final += [["shutdown", "ex", True], ["sleep", 0.1]]
        final += sample_ops(fnames)
        prog = {"setup": [["build", "ex", {"base": {"kind": "manual"}, "layers": layers}]], "threads": [t0], "settle": 2.5, "final": final}
        return {"prog": prog, "tape": draw(gen.tapes(4)), "clock": "exact", "max_vtime": 300}

    return cases()


def catalog():
    out = {}
    R = LAYER["retry"]("n0")
    T = LAYER["throttle"]("n0")
    # cancel exactly at the retry instant (0.01 + 0.5)
    out["cancel-at-retry-instant"] = {"setup": [["build", "ex", {"base": {"kind": "manual"}, "layers": [R]}], ["submit", "ex", "f0", {"script": [["raise", "E0"], ["tag"]]}],
                                                ["sleep", 0.01], ["run", "ex", 0]],
                                      "threads": [[["sleep", 0.5]], [["sleep", 0.5], ["cancel", "f0"]]],
                                      "settle": 1.5, "final": [["runall", "ex"], ["sleep", 1.0]] + sample_ops(["f0"])}
    # submit || hand-over || completion on a throttle; cancel of a queued future || pop
    out["throttle-submit-vs-handover"] = {"setup": [["build", "ex", {"base": {"kind": "manual"}, "layers": [T]}], ["submit", "ex", "f0", {"script": [["tag"]]}], ["sleep", 0.01]],
                                          "threads": [[["sleep", 0.5], ["run", "ex", 0]], [["sleep", 0.5], ["submit", "ex", "f1", {"script": [["tag"]]}], ["submit", "ex", "f2", {"script": [["tag"]]}]],
                                                      [["sleep", 0.5], ["cancel", "f1"]]],
                                          "settle": 1.0, "final": sample_ops(["f0", "f1", "f2"]) + [["runall", "ex"], ["sleep", 0.5], ["runall", "ex"], ["sleep", 0.5]] + sample_ops(["f0", "f1", "f2"])}
    # timeout firing || completion
    out["timeout-vs-completion"] = {"setup": [["build", "ex", {"base": {"kind": "manual"}, "layers": [LAYER["timeout"]("n0")]}], ["submit", "ex", "f0", {"script": [["tag"]]}],
                                              ["submit", "ex", "f1", {"script": [["tag"]]}]],
                                    "threads": [[["sleep", 1.0], ["run", "ex", 0]], [["sleep", 1.0], ["cancel", "f1"]]],
                                    "settle": 1.0, "final": sample_ops(["f0", "f1"])}
    # a future cancelled by the user while the timeout thread is busy (a slow done-callback of a future it has just timed
    # out runs on it) and whose deadline passes meanwhile is not a time-out
    out["user-cancel-while-timeout-thread-is-busy"] = {
        "setup": [["build", "ex", {"base": {"kind": "manual"}, "layers": [LAYER["timeout"]("n0")]}], ["submit", "ex", "f0", {"script": [["tag"]]}],
                  ["add_cb", "f0", "slow", ["op", ["sleep", 1.0]]], ["sleep", 0.5], ["submit", "ex", "f1", {"script": [["tag"]]}]],
        "threads": [[["sleep", 0.7], ["cancel", "f1"]]],
        "settle": 2.5, "final": sample_ops(["f0", "f1"])}
    # futures that are already cancelled when the cancel-on-shutdown layer gets them (the flat_map function returned a cancelled
    # future) are not "cancelled by shutdown"
    out["born-cancelled-under-cos"] = {
        "setup": [["build", "ex", {"base": {"kind": "sync"}, "layers": [LAYER["flat_map-cancelled"]("n0"), LAYER["cos"]("n1")]}],
                  ["submit", "ex", "f0", {"script": [["tag"]]}], ["submit", "ex", "f1", {"script": [["tag"]]}], ["sleep", 0.1]],
        "threads": [[["sleep", 0.5], ["shutdown", "ex", True]]],
        "settle": 1.0, "final": sample_ops(["f0", "f1"])}
    # a callable that fails with a CancelledError instance (it waited on some other, cancelled future) has failed, not been cancelled
    out["fails-with-cancellederror"] = {
        "setup": [["build", "ex", {"base": {"kind": "manual"}, "layers": [LAYER["retry"]("n0"), LAYER["map"]("n1")]}],
                  ["submit", "ex", "f0", {"script": [["raise", "CE"]]}], ["submit", "ex", "f1", {"script": [["tag"]]}], ["sleep", 0.1]],
        "threads": [[["sleep", 0.5], ["runall", "ex"]]],
        "settle": 1.0, "final": sample_ops(["f0", "f1"])}
    # two threads calling shutdown() on the same executor at the same instant: the "executors in use" gauge is decremented once
    for lname in ("map", "retry", "throttle", "poll", "timeout", "cos"):
        out["double-shutdown/" + lname] = {
            "setup": [["build", "ex", {"base": {"kind": "manual"}, "layers": [LAYER[lname]("n0")]}], ["submit", "ex", "f0", {"script": [["tag"]]}], ["sleep", 0.01]],
            "threads": [[["sleep", 0.5], ["shutdown", "ex", False]], [["sleep", 0.5], ["shutdown", "ex", False]]],
            "settle": 1.0, "final": [["runall", "ex"], ["sleep", 1.5]] + sample_ops(["f0"])}
    for lname in ("map", "retry", "throttle", "poll", "timeout", "cos"):
        # a submit() refused after shutdown creates no future: the counters stay where they were
        out["refused-submit/" + lname] = {
            "setup": [["build", "ex", {"base": {"kind": "manual"}, "layers": [LAYER[lname]("n0")]}], ["submit", "ex", "f0", {"script": [["tag"]]}], ["sleep", 0.01]],
            "threads": [[["sleep", 0.5], ["shutdown", "ex", False], ["submit", "ex", "f1", {"script": [["tag"]]}], ["submit", "ex", "f2", {"script": [["tag"]]}]]],
            "settle": 1.0, "final": [["runall", "ex"], ["sleep", 1.5]] + sample_ops(["f0"])}
        # the delegate's shutdown() raises (a pool told to wait from one of its own workers does): the executor is shut down all
        # the same - submit() is refused from then on - and is no longer "in use"
        out["delegate-shutdown-raises/" + lname] = {
            "setup": [["build", "ex", {"base": {"kind": "manual"}, "layers": [dict(LAYER[lname]("n0"), delegate_shutdown_raises=True)]}],
                      ["submit", "ex", "f0", {"script": [["tag"]]}], ["sleep", 0.01], ["runall", "ex"], ["sleep", 0.7]],
            "threads": [[["sleep", 0.5], ["shutdown", "ex", True], ["shutdown", "ex", True]]],
            "settle": 1.0, "final": [["sleep", 0.5]] + sample_ops(["f0"])}
    return out


def shards(tier, seed):
    n = 250 if tier == "quick" else 4000
    specs = [{"mode": "sweep", "entries": [name], "double": tier == "thorough"} for name in sorted(catalog())]
    specs += [{"mode": "machine", "seed": seed * 1000 + 500 + i, "n": 60 if tier == "quick" else 1500, "steps": 30 if tier == "quick" else 60} for i in range(4)]
    return specs + [{"mode": "random", "seed": seed * 1000 + i, "n": n} for i in range(13)]


def run_shard(spec, ctx):
    if spec["mode"] == "sweep":
        cat = catalog()
        for name in spec["entries"]:
            progs.sweep(ctx, cat[name], name, evaluate, account, double=spec.get("double"), extra={"entry": name, "max_vtime": 300})
    elif spec["mode"] == "machine":
        import machines
        machines.run_machine(machines.make_metrics_machine, ctx, spec["seed"], spec["n"], spec["steps"])
    else:
        progs.random_search(ctx, spec, case_strategy(), evaluate, account, max_rounds=8)


def replay(case):
    if case.get("machine") == "metrics":
        import machines
        return machines.replay_metrics(case)
    viols, info = evaluate(case)
    return viols
