"""C04 - no deadlock among API calls and internal threads, incl. nested submission.

Oracle: the scheduler's wait-for graph.  A run that ends with a wait-for cycle
(`deadlock`), or with a client thread blocked while nothing can run and no
finite timer is pending (`stuck`), or with a client still inside an API call
after 10^4 virtual seconds (`vtime`), is a violation.  Client-side waits that
may legitimately time out (result(T)) use finite virtual timeouts and are not
judged here.  Second oracle, for runs whose clients all returned: every API
call (submit / cancel / add_done_callback / shutdown) issued anywhere - also by
user code running on one of the library's threads - has returned by the end of
the program.
"""
import itertools
import vsched
import harness
import progs

PROPERTY = "C04"
LEVEL = "exploration"
RULE = (
    "cases = (program, tape, clock-mode): catalogue micro-programs with every single pre-emption placement (thorough: pairs inside "
    "the contention window), enumerated nested-submission programs (site x stack; sites = callable, done-callback, map / error / "
    "flat_map function, poll function, cancel function), and Hypothesis-drawn programs of <=3 client threads over stacks of depth <=4 "
    "with tapes of <=8 entries. Non-trivial = at least one pre-emption was taken AND some thread had to wait for a lock, or the "
    "program nests a submission. Distinct = digest of (program, tape, clock-mode). Oracle: no wait-for cycle, no client blocked with "
    "nothing runnable, no client inside an API call after 10^4 virtual seconds, and no API call issued from user code on a library "
    "thread left unreturned at the end; in the nested programs (nothing refused, shutdown last) a result(timeout) that runs into its "
    "time-out is a stall."
)
ASSUMPTIONS = [
    "pre-emption granularity is one source line of more_executors/_impl plus every primitive operation",
    "several threads calling shutdown() and callables that wait on work only their own thread can run are user errors and are not generated",
    "blocking-mode throttle with count 0 is not generated here (owned by C07/C11)",
    "three recorded, unrepaired deadlock shapes (known_findings.json: K2 gate / K2N / K3) are recognised by the structure of the end "
    "state and excluded from the search by signature; the evidence counts them",
]


def signature(s):
    r = s.end_reason
    if r == "deadlock":
        sites = sorted(set(c["waits_for"] for c in s.deadlock))
        if len(s.deadlock) == 1:
            return "C04:self-deadlock:%s" % sites[0]
        return "C04:deadlock:%s" % "+".join(sites)
    if r in ("stuck", "vtime"):
        parts = []
        for c in getattr(s, "stuck_clients", []):
            top = None
            for fr in c["stack"] or []:
                if not fr.startswith(("world.py", "progs.py", "c0", "vsched.py")):
                    top = fr.split(":")[0] + ":" + fr.split(":")[2]
                    break
            lab = c.get("blocked_on")
            parts.append("%s@%s" % (lab, top))
        return "C04:%s:%s" % ("hang" if r == "vtime" else "stuck", "+".join(sorted(set(parts))))
    return None


K2 = "C04:hang:outer-layer-lock-held-across-blocking-throttle-submit"
K2N = "C04:hang:nested-submit-parked-by-blocking-throttle"
K3 = "C04:deadlock:retry-submit_now-runs-inline-callable-under-its-locks"


def _frames(t):
    """[(file, function)] innermost first"""
    return [(fr.split(":")[0], fr.split(":")[2]) for fr in (t.get("stack") or []) if fr.count(":") >= 2]


def known_shape(s, w):
    """Structural recognition of the recorded, unrepaired deadlock shapes (DESIGN section 7: K2, K2N, K3).  Each needs a
    very specific end state; every other hang or cycle keeps its ordinary signature and is reported.

    K2N  a thread that is NOT a client thread (a pool worker, or the worker thread of another layer) is parked in
         ThrottleExecutor._block_until_ready of a blocking throttle - a submit() issued by user code running on a library
         thread found the queue full - and that thread is not the hand-over thread of that same throttle (that would be
         the repaired defect F13).
    K3   a callable run inline by RetryExecutor._submit_now (synchronous delegate: ... retry.py:_submit_now ->
         sync.py:submit -> user code -> API call) waits for a mutex: the retry executor's own locks are held across it.
    K2   a thread is parked in _block_until_ready reached *through a layer above the throttle*, and a library thread (the
         throttle's hand-over thread, or a worker running user code) waits for that outer layer's shutdown gate or for
         RetryExecutor's executor lock."""
    if w is None:
        return None
    throttles = [ex for levels in w.exs.values() for ex in levels
                 if type(ex).__name__ == "ThrottleExecutor" and getattr(ex, "_block", False)]
    live = [t for t in s.final_threads if not t["done"]]
    # --- K2N
    for t in live:
        if t["client"] or not t.get("loc") or t["loc"][1] != "_block_until_ready":
            continue
        fr = _frames(t)
        if ("throttle.py", "_block_until_ready") not in fr or not any(f == "world.py" for f, _ in fr):
            continue
        # whose _block_until_ready?  if the parked thread is a blocking throttle's own hand-over thread and it is parked in
        # THAT throttle, this is F13 again, not K2N.
        own = [ex for ex in throttles if id(ex) == t.get("park_self")]
        if own and getattr(getattr(own[0]._thread, "_vt", None), "tid", None) == t.get("tid"):
            continue
        return K2N
    # (the same one step earlier: the nested submit() queues behind a client submit() that is parked on the full queue)
    turn_locks = set(id(ex._block_lock) for ex in throttles if getattr(ex, "_block_lock", None) is not None)
    for t in live:
        fr = _frames(t)
        if not t["client"] and t.get("blocked_id") in turn_locks and fr[:1] == [("throttle.py", "submit")] and any(f == "world.py" for f, _ in fr):
            return K2N
    # --- K3
    for t in live:
        fr = _frames(t)
        if ("sync.py", "submit") in fr and str(t.get("blocked_on", "")).startswith(("CLock", "CRLock")):
            i = fr.index(("sync.py", "submit"))  # innermost inline execution
            if ("retry.py", "_submit_now") in fr[i + 1:] and any(f == "world.py" for f, _ in fr[:i]):
                return K3
    # --- K2
    outer_files = ("map.py", "retry.py", "cancel_on_shutdown.py", "poll.py", "timeout.py", "asyncio.py", "flat_map.py")
    parked_from_outer = False
    for t in live:
        if not t.get("loc") or t["loc"][1] != "_block_until_ready":
            continue
        if any(f in outer_files for f, _ in _frames(t)):
            parked_from_outer = True
    if not parked_from_outer:
        return None
    own = set()
    for ex in throttles:
        own.update(id(x) for x in (getattr(ex, "_lock", None), getattr(ex, "_block_lock", None), getattr(ex._shutdown, "_lock", None)))
    # a library thread - the throttle's hand-over thread, or a worker running user code that submits - whose progress frees
    # capacity waits for a mutex of the outer layer
    for t in live:
        if t["client"] or not str(t.get("blocked_on", "")).startswith(("CLock", "CRLock")) or t.get("blocked_id") is None or t["blocked_id"] in own:
            continue
        site = str(t["blocked_on"]).split("@")[-1]
        if site in ("helpers.py:ShutdownHelper.__init__", "retry.py:RetryExecutor.__init__"):
            # which kind of outer lock: the shutdown gate of a layer, or RetryExecutor's executor lock
            return K2 + ":" + site
    return None


def evaluate(case):
    """Run one case. Returns (violations, info)."""
    s, w = progs.run_case(case, track_lock_order=True)
    info = {
        "end": s.end_reason,
        "steps": s.steps,
        "preemptions": s.preemptions,
        "contended": s.contended,
        "nested": bool(case.get("nested")),
        "lock_edges": sorted("%s->%s" % k for k in s.lock_edges),
    }
    viols = []
    strict = bool(case["prog"].get("strict"))  # a program that must pass as it stands: no known-finding recognition
    if s.end_reason in ("deadlock", "stuck", "vtime"):
        sig = (None if strict else known_shape(s, w)) or signature(s)
        detail = {
            "end_reason": s.end_reason,
            "deadlock": s.deadlock,
            "blocked_clients": getattr(s, "stuck_clients", None),
            "threads": s.final_threads,
            "vtime": s.now,
        }
        viols.append({"signature": sig, "detail": detail})
    elif s.end_reason == "steps":
        info["inconclusive"] = True
    elif w is not None:
        # every API call made anywhere - also from user code running on the library's own threads - must have returned
        import world as _world
        h = _world.History(s, w)
        stuck_ops = [o for o in h.unfinished_ops() if o["op"][0] in ("submit", "cancel", "add_cb", "shutdown")]
        if stuck_ops:
            o = stuck_ops[0]
            where = [t for t in s.final_threads if t["name"] == o["thread"]]
            sig = (None if strict else known_shape(s, w)) or "C04:call-never-returned:%s-on-%s" % (o["op"][0], o["thread"].split("-")[0])
            viols.append({"signature": sig,
                          "detail": {"op": o["op"][:3], "thread": where, "end_reason": s.end_reason}})
    if w is not None and not viols and s.end_reason == "done" and case["prog"].get("waits_must_succeed"):
        # a program in which every result(timeout >= 5 virtual seconds) is owed an answer: a wait that ran into its time-out means
        # the stack stalled for that long although nothing external was missing
        import world as _world
        for o in _world.History(s, w).oplist():
            if o["op"][0] == "result" and (o["result"][0] == "timeout" or o["result"][:2] == ["exc", "TimeoutError"]):
                viols.append({"signature": "C04:wait-timed-out:%s" % o["thread"].split("-")[0], "detail": {"op": o["op"], "thread": o["thread"], "t": o["ret_t"]}})
                break
    if w is not None and w.errors:
        info["world_errors"] = w.errors
    return viols, info


def nontrivial(info):
    return (info["preemptions"] >= 1 and info["contended"] >= 1) or info["nested"]


def account(ctx, case, viols, info, extra_classes=()):
    cls = ["end:" + info["end"], "preempt:%d" % min(info["preemptions"], 3),
           "contended:%s" % (info["contended"] > 0)] + list(extra_classes)
    if info.get("inconclusive"):
        ctx.inconclusive += 1
    ctx.case(case, nontrivial(info), cls,
             sample={"case": case, "end": info["end"], "steps": info["steps"], "lock_order_edges": info["lock_edges"][:6]})
    new = False
    for v in viols:
        if ctx.violation(v["signature"], case, v["detail"]):
            new = True
    return new


# ----------------------------------------------------------------------------
# catalogue for sweeps
# ----------------------------------------------------------------------------
def catalog():
    """Two/three-thread micro-programs: API call || API call / worker loop."""
    out = {}
    sub = lambda name, script=None: ["submit", "ex", name, {"script": script or [["tag"]]}]
    for lname, layers in progs.SINGLE_LAYERS.items():
        for bname, base in (("pool1", {"kind": "pool", "workers": 1}), ("sync", {"kind": "sync"})):
            st = {"base": base, "layers": layers}
            pre = [["build", "ex", st]]
            # submit || shutdown
            out["%s/%s/submit|shutdown" % (lname, bname)] = {
                "setup": pre + [sub("f0")],
                "threads": [[sub("f1"), ["result", "f1", 50]], [["shutdown", "ex", True]]],
                "settle": 5,
            }
            # submit || cancel + add_cb
            out["%s/%s/submit|cancel" % (lname, bname)] = {
                "setup": pre + [sub("f0", [["raise", "E0"], ["tag"]])],
                "threads": [[sub("f1"), ["add_cb", "f1", "cb1"], ["result", "f1", 50]],
                            [["cancel", "f0"], ["add_cb", "f0", "cb0"], ["cancel", "f1"]]],
                "final": [["shutdown", "ex", True]],
                "settle": 5,
            }
            # cancel || shutdown
            out["%s/%s/cancel|shutdown" % (lname, bname)] = {
                "setup": pre + [sub("f0", [["raise", "E0"], ["tag"]]), sub("f1")],
                "threads": [[["cancel", "f0"], ["cancel", "f1"], ["result", "f1", 50]], [["shutdown", "ex", True]]],
                "settle": 5,
            }
    # two-layer stacks with cancel_on_shutdown outermost / innermost
    for lname, layers in progs.SINGLE_LAYERS.items():
        if lname == "cos":
            continue
        st = {"base": {"kind": "pool", "workers": 2}, "layers": layers + [{"kind": "cos"}]}
        out["%s+cos/pool2/submit|shutdown" % lname] = {
            "setup": [["build", "ex", st], sub("f0")],
            "threads": [[sub("f1"), ["result", "f1", 50]], [["shutdown", "ex", True]], [sub("f2"), ["cancel", "f2"]]],
            "settle": 5,
        }
    # a future somewhere down the chain is cancelled by the shutdown sweep (the layers above learn of it through their
    # delegate's callbacks, bottom-up) while another thread cancels the top of the chain (top-down)
    for tops, nm in (([{"kind": "map", "fn": [["app", "m"]], "err": None}, {"kind": "map", "fn": [["app", "n"]], "err": None}], "cos+map+map"),
                     ([{"kind": "flat_map", "fn": [["futarg", "done"]], "err": None}, {"kind": "timeout", "t": 5000.0}], "cos+flat_map+timeout"),
                     ([{"kind": "retry", "policy": {"type": "exc", "max_attempts": 2, "sleep": 0.25}}, {"kind": "map", "fn": [["app", "m"]], "err": None}], "cos+retry+map")):
        st = {"base": {"kind": "pool", "workers": 1}, "layers": [{"kind": "cos"}] + tops}
        out["%s/pool1/sweep-cancel|cancel" % nm] = {
            "setup": [["build", "ex", st], sub("p0", [["gate", "g", ["tag"]]]), sub("f1"), sub("f2"), ["sleep", 0.1]],
            "threads": [[["shutdown", "ex", False]], [["cancel", "f1"], ["cancel", "f2"]], [["add_cb", "f2", "cb2"], ["sleep", 0.5], ["open", "g"]]],
            "final": [["open", "g"]], "settle": 3,
        }
    return out


# nested programs that are deterministic instances of the recorded known findings (run once, not swept: every placement
# would hang until the virtual time limit)
KNOWN_SHAPED = set(
    ["callback-internal/throttle-block-under-%s-nested-while-a-submit-is-parked" % t for t in ("map", "cos", "retry", "timeout", "poll")] +
    ["callable/throttle-block-nested-from-the-only-pool-worker", "callback-internal/throttle-block-over-poll-nested-from-the-poll-thread"])


def nested_cases():
    """Nested submission: user code inside the stack submits to the stack and returns."""
    out = []
    inner = {"script": [["tag"]]}
    for lname, layers in sorted(progs.SINGLE_LAYERS.items()):
        for bname, base in (("sync", {"kind": "sync"}), ("pool1", {"kind": "pool", "workers": 1}),
                            ("pool2", {"kind": "pool", "workers": 2})):
            st = {"base": base, "layers": layers}
            # (a) from the callable
            out.append(("callable/%s/%s" % (lname, bname), {
                "setup": [["build", "ex", st]],
                "threads": [[["submit", "ex", "f0", {"script": [["submit", "ex", "n0", inner, ["tag"]]]}],
                             ["result", "f0", 50], ["result", "n0", 50]]],
                "final": [["shutdown", "ex", True]], "settle": 5}))
            # (b) from a done-callback
            out.append(("callback/%s/%s" % (lname, bname), {
                "setup": [["build", "ex", st]],
                "threads": [[["submit", "ex", "f0", {"script": [["tag"]]}],
                             ["add_cb", "f0", "cb0", ["op", ["submit", "ex", "n0", inner]]],
                             ["result", "f0", 50], ["sleep", 3], ["result", "n0", 50]]],
                "final": [["shutdown", "ex", True]], "settle": 5}))
    # (b2) from a done-callback of a future that is ended by an *internal* thread or by a cancel:
    #      timeout firing, poll yield, retry exhaustion, user cancel, cancel behind the back, shutdown sweep
    ends = {
        "timeout-fires": ([{"kind": "timeout", "t": 0.5}], [["sleep", 1.0]]),
        "timeout-fires+map": ([{"kind": "timeout", "t": 0.5}, {"kind": "map", "fn": [["app", "m"]], "err": None}], [["sleep", 1.0]]),
        "timeout-fires+retry": ([{"kind": "retry", "policy": {"type": "exc", "max_attempts": 2, "sleep": 0.25}}, {"kind": "timeout", "t": 0.5}], [["sleep", 1.0]]),
        "throttle+timeout-fires": ([{"kind": "throttle", "count": 1}, {"kind": "timeout", "t": 0.5}], [["sleep", 1.0]]),
        "poll-yields": ([{"kind": "poll", "interval": 0.5}], [["run", "ex", 0], ["sleep", 1.0]]),
        "retry-exhausted": ([{"kind": "retry", "policy": {"type": "exc", "max_attempts": 2, "sleep": 0.25}}], [["run", "ex", 0], ["sleep", 0.5], ["run", "ex", 1], ["sleep", 0.5]]),
        "user-cancel/retry": ([{"kind": "retry", "policy": {"type": "exc", "max_attempts": 2, "sleep": 0.25}}], [["cancel", "f0"]]),
        "user-cancel/throttle-queued": ([{"kind": "throttle", "count": 0}], [["cancel", "f0"]]),
        "user-cancel/poll": ([{"kind": "poll", "interval": 0.5, "per_sub": {"f0.fn": {"after": None}}}], [["run", "ex", 0], ["sleep", 0.25], ["cancel", "f0"]]),
        "user-cancel/map": ([{"kind": "map", "fn": [["app", "m"]], "err": None}], [["cancel", "f0"]]),
        "external-cancel/map": ([{"kind": "map", "fn": [["app", "m"]], "err": None}], [["complete", "ex.base.j0", "cancel"]]),
        "external-cancel/retry": ([{"kind": "retry", "policy": {"type": "exc", "max_attempts": 2, "sleep": 0.25}}], [["complete", "ex.base.j0", "cancel"]]),
        "shutdown-sweep/cos": ([{"kind": "map", "fn": None, "err": None}, {"kind": "cos"}], [["shutdown", "ex", True]]),
        "shutdown-sweep/cos+timeout": ([{"kind": "timeout", "t": 5000.0}, {"kind": "cos"}], [["shutdown", "ex", True]]),
    }
    # (b3) blocking throttle over a sync base: the callable and the done-callbacks run on the hand-over thread
    #      itself; a nested submit() from there must not wait for the queue that only this thread can drain
    out.append(("callback-internal/throttle-block-nested-on-handover-thread", {
        "setup": [["build", "ex", {"base": {"kind": "sync"}, "layers": [{"kind": "throttle", "count": 1, "block": True}]}]],
        "threads": [[["submit", "ex", "f0", {"script": [["gate", "g", ["tag"]]]}],
                     ["add_cb", "f0", "cb0", ["op", ["submit", "ex", "n0", inner]]], ["sleep", 0.25],
                     ["submit", "ex", "f1", {"script": [["tag"]]}], ["open", "g"], ["result", "f0", 5], ["sleep", 1.0], ["result", "f1", 5], ["result", "n0", 5]]],
        "final": [], "settle": 2}))
    out.append(("callback-internal/throttle-block-nested-while-a-submit-is-parked", {
        "setup": [["build", "ex", {"base": {"kind": "sync"}, "layers": [{"kind": "throttle", "count": 1, "block": True}]}]],
        "threads": [[["submit", "ex", "f0", {"script": [["gate", "g", ["tag"]]]}],
                     ["add_cb", "f0", "cb0", ["op", ["submit", "ex", "n0", inner]]],
                     ["submit", "ex", "f1", {"script": [["tag"]]}], ["sleep", 1.0], ["open", "g"], ["result", "f0", 5], ["sleep", 1.0],
                     ["result", "f1", 5], ["result", "n0", 5]],
                    [["sleep", 0.5], ["submit", "ex", "f2", {"script": [["tag"]]}], ["result", "f2", 5]]],
        "final": [], "settle": 2}))
    # (b4) the same with a layer above the blocking throttle: known finding K2 (the outer layer's gate / lock is held across
    #      the parked delegate submit); kept in the search so that the exclusion is counted and any other outcome is reported
    for tname, top in (("map", {"kind": "map", "fn": [["app", "m"]], "err": None}), ("cos", {"kind": "cos"}),
                       ("retry", {"kind": "retry", "policy": {"type": "exc", "max_attempts": 2, "sleep": 0.25}}),
                       ("timeout", {"kind": "timeout", "timeout": 50}), ("poll", {"kind": "poll", "interval": 0.5, "per_sub": {}})):
        out.append(("callback-internal/throttle-block-under-%s-nested-while-a-submit-is-parked" % tname, {
            "setup": [["build", "ex", {"base": {"kind": "sync"}, "layers": [{"kind": "throttle", "count": 1, "block": True}, top]}]],
            "threads": [[["submit", "ex", "f0", {"script": [["gate", "g", ["tag"]]]}],
                         ["add_cb", "f0", "cb0", ["op", ["submit", "ex", "n0", inner]]],
                         ["submit", "ex", "f1", {"script": [["tag"]]}], ["sleep", 1.0], ["open", "g"], ["result", "f0", 5], ["sleep", 1.0],
                         ["result", "f1", 5], ["result", "n0", 5]],
                        [["sleep", 0.5], ["submit", "ex", "f2", {"script": [["tag"]]}], ["result", "f2", 5]]],
            "final": [], "settle": 2}))
    # (b6) a poll invocation raises: the futures it was shown fail on the poll thread and their callbacks submit again, while a
    #      client is inside submit() with a delegate future that is already done (it registers for polling inline)
    out.append(("callback-internal/poll-raises-while-a-submit-registers", {
        "setup": [["build", "ex", {"base": {"kind": "sync"}, "layers": [{"kind": "poll", "interval": 0.5, "per_sub": {"f0.fn": {"after": None}},
                                                                         "calls": [{}, {"at": 0.4, "raise": "E2"}]}]}]],
        "threads": [[["submit", "ex", "f0", {"script": [["tag"]]}], ["add_cb", "f0", "cb0", ["op", ["submit", "ex", "n0", inner]]], ["sleep", 0.5],
                     ["result", "n0", 5]],
                    [["sleep", 0.5], ["submit", "ex", "f1", {"script": [["tag"]]}], ["result", "f1", 5]]],
        "final": [["shutdown", "ex", True]], "settle": 2}))
    # (b7) a blocking throttle with spare pool workers: a done-callback of a throttled future submits again while one job is
    #      queued.  The slot of the finished job is free before its callbacks run, so the nested submit() returns - this
    #      program must pass, and is judged without the known-finding recognisers ("strict")
    out.append(("callback-internal/throttle-block-nested-from-callback-with-a-free-slot", {
        "strict": True,
        "setup": [["build", "ex", {"base": {"kind": "pool", "workers": 2}, "layers": [{"kind": "throttle", "count": 1, "block": True}]}]],
        "threads": [[["submit", "ex", "f0", {"script": [["gate", "g", ["tag"]]]}], ["add_cb", "f0", "cb0", ["op", ["submit", "ex", "n0", inner]]],
                     ["submit", "ex", "f1", {"script": [["tag"]]}], ["sleep", 0.25], ["open", "g"], ["result", "f0", 5], ["result", "f1", 5], ["sleep", 0.5], ["result", "n0", 5]]],
        "final": [["shutdown", "ex", True]], "settle": 2}))
    # (b5) known findings K2N / K3 as deterministic programs (excluded by signature, counted in the evidence)
    out.append(("callable/throttle-block-nested-from-the-only-pool-worker", {
        "setup": [["build", "ex", {"base": {"kind": "pool", "workers": 1}, "layers": [{"kind": "throttle", "count": 1, "block": True}]}]],
        "threads": [[["submit", "ex", "f0", {"script": [["gate", "g", ["submit", "ex", "n0", inner, ["tag"]]]]}], ["sleep", 0.25],
                     ["submit", "ex", "f1", {"script": [["tag"]]}], ["open", "g"], ["result", "f0", 5], ["result", "f1", 5]]],
        "final": [], "settle": 2}))
    out.append(("callback-internal/throttle-block-over-poll-nested-from-the-poll-thread", {
        "setup": [["build", "ex", {"base": {"kind": "sync"}, "layers": [{"kind": "poll", "interval": 0.25, "per_sub": {}}, {"kind": "throttle", "count": 1, "block": True}]}]],
        "threads": [[["submit", "ex", "f0", {"script": [["tag"]]}], ["add_cb", "f0", "cb0", ["op", ["submit", "ex", "n0", inner]]],
                     ["submit", "ex", "f1", {"script": [["tag"]]}], ["submit", "ex", "f2", {"script": [["tag"]]}], ["result", "f0", 5], ["result", "f2", 5]]],
        "final": [], "settle": 2}))
    for tname, tops in (("retry", []), ("retry+map", [{"kind": "map", "fn": [["app", "m"]], "err": None}]),
                        ("retry+retry", [{"kind": "retry", "policy": {"type": "exc", "max_attempts": 2, "sleep": 0.25}}])):
        out.append(("callable/sync+%s-nested-while-another-submit-is-in-progress" % tname, {
            "setup": [["build", "ex", {"base": {"kind": "sync"}, "layers": [{"kind": "retry", "policy": {"type": "exc", "max_attempts": 2, "sleep": 0.25}}] + tops}]],
            # (the gate is opened by a third thread: with an inline base a callable must not wait for its own submitter)
            "threads": [[["submit", "ex", "f0", {"script": [["gate", "g", ["submit", "ex", "n0", inner, ["tag"]]]]}], ["result", "f0", 5], ["result", "n0", 5]],
                        [["sleep", 0.25], ["submit", "ex", "f2", {"script": [["tag"]]}], ["result", "f2", 5]],
                        [["sleep", 0.5], ["open", "g"]]],
            "final": [], "settle": 2}))
    out.append(("callable/throttle-block-nested-on-handover-thread", {
        "setup": [["build", "ex", {"base": {"kind": "sync"}, "layers": [{"kind": "throttle", "count": 1, "block": True}]}]],
        "threads": [[["submit", "ex", "f0", {"script": [["gate", "g", ["submit", "ex", "n0", inner, ["tag"]]]]}], ["sleep", 0.25],
                     ["submit", "ex", "f1", {"script": [["tag"]]}], ["open", "g"], ["result", "f0", 5], ["sleep", 1.0], ["result", "f1", 5], ["result", "n0", 5]]],
        "final": [], "settle": 2}))
    for ename, (layers, how) in sorted(ends.items()):
        fail = [["raise", "E0"]] if "retry-exhausted" in ename else [["tag"]]
        out.append(("callback-internal/" + ename, {
            "setup": [["build", "ex", {"base": {"kind": "manual"}, "layers": layers}]],
            "threads": [[["submit", "ex", "f0", {"script": fail}],
                         ["add_cb", "f0", "cb0", ["op", ["submit", "ex", "n0", inner]]], ["sleep", 0.01]] + how +
                        [["result", "f0", 5], ["sleep", 1.0]]],
            "final": ([] if "shutdown" in ename else [["shutdown", "ex", True]]), "settle": 2}))
    for bname, base in (("sync", {"kind": "sync"}), ("pool1", {"kind": "pool", "workers": 1}), ("pool2", {"kind": "pool", "workers": 2})):
        for extra_name, extra in (("", []), ("+retry", [{"kind": "retry", "policy": {"type": "exc", "max_attempts": 2, "sleep": 0.25}}]),
                                  ("+throttle", [{"kind": "throttle", "count": 2}]), ("+timeout", [{"kind": "timeout", "t": 5000.0}]),
                                  ("+cos", [{"kind": "cos"}])):
            # (c) from a map function / error function / flat_map function
            st = {"base": base, "layers": [{"kind": "map", "fn": [["submit", "ex", "n0", inner, ["app", "m"]], ["app", "m"]], "err": None}] + extra}
            out.append(("mapfn/map%s/%s" % (extra_name, bname), {
                "setup": [["build", "ex", st]],
                "threads": [[["submit", "ex", "f0", {"script": [["ret", 1]]}], ["result", "f0", 50]]],
                "final": [["shutdown", "ex", True]], "settle": 5}))
            st = {"base": base, "layers": [{"kind": "map", "fn": None, "err": [["submit", "ex", "n0", inner, ["app", "h"]], ["app", "h"]]}] + extra}
            out.append(("errfn/map%s/%s" % (extra_name, bname), {
                "setup": [["build", "ex", st]],
                "threads": [[["submit", "ex", "f0", {"script": [["raise", "E1"]]}], ["result", "f0", 50]]],
                "final": [["shutdown", "ex", True]], "settle": 5}))
            st = {"base": base, "layers": [{"kind": "flat_map", "fn": [["submit", "ex:0", "n0", inner, ["retfut", "n0"]]], "err": None}] + extra}
            out.append(("flatfn/flat_map%s/%s" % (extra_name, bname), {
                "setup": [["build", "ex", st]],
                "threads": [[["submit", "ex", "f0", {"script": [["ret", 1]]}], ["result", "f0", 50]]],
                "final": [["shutdown", "ex", True]], "settle": 5}))
        # (e) from the cancel function: it submits a "please stop" request to the same executor and waits for it (the poll
        #     thread must be able to resolve that request while the cancel function is still running)
        st = {"base": base, "layers": [{"kind": "poll", "interval": 0.5, "per_sub": {"f0.fn": {"after": None}},
                                        "cancel": [["submit", "ex", "n0", inner, ["op", ["result", "n0", 50], ["ret", True]]]]}]}
        out.append(("cancelfn/poll/%s" % bname, {
            "waits_must_succeed": True,
            "setup": [["build", "ex", st]],
            "threads": [[["submit", "ex", "f0", {"script": [["tag"]]}], ["sleep", 0.75], ["cancel", "f0"], ["result", "n0", 50]]],
            "final": [["shutdown", "ex", True]], "settle": 5}))
        # (d) from the poll function
        st = {"base": base, "layers": [{"kind": "poll", "interval": 0.5, "calls": [{"op": ["submit", "ex", "n0", inner]}, {}]}]}
        out.append(("pollfn/poll/%s" % bname, {
            "setup": [["build", "ex", st]],
            "threads": [[["submit", "ex", "f0", {"script": [["tag"]]}], ["result", "f0", 50], ["result", "n0", 50]]],
            "final": [["shutdown", "ex", True]], "settle": 5}))
    for name, prog in out:
        # in none of these programs is a future abandoned (shutdown comes last, nothing is refused): every timed wait is owed an answer
        if name not in KNOWN_SHAPED:
            prog.setdefault("waits_must_succeed", True)
    return out


# ----------------------------------------------------------------------------
# shards
# ----------------------------------------------------------------------------
def shards(tier, seed):
    specs = []
    cat = sorted(catalog())
    per = 3 if tier == "quick" else 1
    for i in range(0, len(cat), per):
        specs.append({"mode": "sweep", "entries": cat[i:i + per], "double": tier == "thorough", "seed": seed})
    specs.append({"mode": "nested"})
    # nested programs in which a second client thread acts concurrently: every single pre-emption placement as well
    conc = [name for name, prog in nested_cases() if len(prog["threads"]) >= 2 and name not in KNOWN_SHAPED]
    for i in range(0, len(conc), 3):
        specs.append({"mode": "nested-sweep", "entries": conc[i:i + 3], "double": False})
    n = 350 if tier == "quick" else 5000
    for i in range(16):
        specs.append({"mode": "random", "seed": seed * 1000 + i, "n": n})
    return specs


def run_shard(spec, ctx):
    vsched.install(harness.REPO)
    if spec["mode"] == "sweep":
        cat = catalog()
        for name in spec["entries"]:
            progs.sweep(ctx, cat[name], name, evaluate, account, double=spec.get("double"), seed=spec.get("seed", 1))
    elif spec["mode"] == "nested-sweep":
        cases = dict(nested_cases())
        for name in spec["entries"]:
            progs.sweep(ctx, cases[name], "nested/" + name, evaluate, account, double=spec.get("double"), extra={"nested": name})
    elif spec["mode"] == "nested":
        cases = nested_cases()
        for name, prog in cases:
            case = {"prog": prog, "tape": [], "clock": "exact", "nested": name}
            viols, info = evaluate(case)
            account(ctx, case, viols, info, ["nested:" + name.split("/")[0]])
        ctx.exhaustive.append({"domain": "nested submission: site x layer x base", "size": len(cases), "complete": True})
    elif spec["mode"] == "random":
        progs.random_search(ctx, spec, case_strategy(), evaluate, account)


def case_strategy():
    from hypothesis import strategies as st
    import gen

    def thread_ops(tid, nthreads, may_shutdown, manual):
        names = ["f%d_%d" % (t, i) for t in range(nthreads) for i in range(3)]
        scripts = st.one_of(
            st.just([["tag"]]),
            st.just([["raise", "E0"], ["tag"]]),
            st.just([["vsleep", 0.5, ["tag"]]]),
            st.just([["raise", "E0"], ["raise", "E0"], ["raise", "E2"]]),
            # callables that use the API themselves: nested submission, cancelling another future
            st.builds(lambda i: [["submit", "ex", "nc_%d_%d" % (tid, i), {"script": [["tag"]]}, ["tag"]]], st.integers(0, 2)),
            st.sampled_from(names).map(lambda n: [["cancel", n, ["tag"]]]),
        )
        op = st.one_of(
            st.builds(lambda i, sc: ["submit", "ex", "f%d_%d" % (tid, i), {"script": sc}], st.integers(0, 2), scripts),
            st.sampled_from(names).map(lambda n: ["cancel", n]),
            st.sampled_from(names).map(lambda n: ["add_cb", n, "cb_%d_%s" % (tid, n)]),
            st.sampled_from(names).map(lambda n: ["add_cb", n, "cbn_%d_%s" % (tid, n),
                                                  ["op", ["submit", "ex", "n_%d_%s" % (tid, n), {"script": [["tag"]]}]]]),
            st.sampled_from(names).map(lambda n: ["result", n, 20]),
            # done-callbacks that cancel another future / chain a further callback from a library thread
            st.tuples(st.sampled_from(names), st.sampled_from(names)).map(
                lambda nm: ["add_cb", nm[0], "cbc_%d_%s" % (tid, nm[0]), ["op", ["cancel", nm[1]]]]),
            st.tuples(st.sampled_from(names), st.sampled_from(names)).map(
                lambda nm: ["add_cb", nm[0], "cba_%d_%s" % (tid, nm[0]), ["op", ["add_cb", nm[1], "cbx_%d_%s" % (tid, nm[1])]]]),
        )
        if manual:
            op = st.one_of(op, st.just(["runall", "ex"]))
        ops = st.lists(op, min_size=1, max_size=4)
        if may_shutdown:
            # the (single) shutdown() is issued by this thread - or, now and then, from a done-callback it registers, i.e. from
            # whichever library thread completes that future (wait=False then: a worker cannot wait for itself)
            def with_sd(o, sd, w, via_cb, n):
                if not sd:
                    return o
                if via_cb:
                    return o + [["add_cb", n, "cbsd_%d_%s" % (tid, n), ["op", ["shutdown", "ex", False]]]]
                return o + [["shutdown", "ex", w]]
            ops = st.builds(with_sd, ops, st.booleans(), st.booleans(), st.sampled_from([False, False, True]), st.sampled_from(names))
        return ops

    @st.composite
    def cases(draw):
        stack = draw(gen.stacks(bases=("sync", "pool", "manual"), max_depth=4, block=True, long_timeouts=draw(st.booleans())))
        for l in stack["layers"]:
            # some poll layers fail: one poll invocation raises (all futures it was shown fail, their callbacks run)
            if l["kind"] == "poll" and draw(st.integers(0, 2)) == 0:
                l["calls"] = [{}] * draw(st.integers(0, 2)) + [{"raise": "E2"}, {}]
        manual = stack["base"]["kind"] == "manual"
        if manual:
            for l in stack["layers"]:
                if l["kind"] == "throttle":
                    l["block"] = False
        nthreads = draw(st.integers(2, 3))
        sd_thread = draw(st.integers(0, nthreads - 1))
        threads = [draw(thread_ops(t, nthreads, t == sd_thread, manual)) for t in range(nthreads)]
        prog = {"setup": [["build", "ex", stack]], "threads": threads, "settle": 10,
                "final": ([["runall", "ex"], ["sleep", 5]] if manual else [])}
        tape = draw(gen.tapes(8))
        clock = draw(st.sampled_from(["exact", "exact", "preempt"]))
        return {"prog": prog, "tape": tape, "clock": clock}

    return cases()


def replay(case):
    vsched.install(harness.REPO)
    viols, info = evaluate(case)
    return viols
