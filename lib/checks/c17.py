"""C17 - f_proxy is transparent for forwarded operations; f_nocancel shields cancel.

Differential oracle: op(f_proxy(f_return(v)), w) must give what op(v, w) gives
(same type and value, or the same exception type), for every forwarded
operation; plus the non-blocking guarantees on a pending input, the timeout
clause under a virtual clock, and the f_nocancel contract.
"""
import sys
import os
import copy
import math
import operator
import itertools
from fractions import Fraction
from decimal import Decimal

import harness

PROPERTY = "C17"
LEVEL = "exploration"
RULE = (
    "cases = (operation, left value, right operand(s), state of the input future). Enumerated: a pool of 33 builtin values x "
    "33 right operands x every forwarded binary operator, every unary operator/conversion, 3-arg pow, 2-arg round, item "
    "set/del, attribute/method access; Hypothesis: recursive builtin values (ints incl. large, floats incl. inf/nan, complex, "
    "str, bytes, tuples, lists, dicts, sets, Fraction, Decimal). States: resolved, failed, pending (non-blocking clauses), "
    "pending-then-resolved under the virtual clock (timeout clause). Non-trivial = the plain operation raises, or operand "
    "types differ, or the input is not simply resolved. Distinct = (op, type(left), type(right), state, outcome kind)."
)
ASSUMPTIONS = [
    "only operations ProxyFuture forwards are compared (reflected operators, comparisons, __index__, formatting are documented as not forwarded)",
    "operand magnitudes are bounded where the plain operation itself explodes (pow, <<, sequence*int)",
]

sys.path.insert(0, harness.REPO)


class Obj(object):
    """A user object with attributes, methods and a few operators."""

    def __init__(self, n):
        self.n = n
        self.items = [1, 2, 3]
        self._prot = ("protected", n)  # a conventional "protected" attribute: single leading underscore

    def _helper(self, k=2):
        return ("helper", self.n, k)

    def method(self, k=1):
        return ("method", self.n, k)

    def __eq__(self, o):
        return isinstance(o, Obj) and o.n == self.n and o.items == self.items

    def __hash__(self):
        return hash(self.n)

    def __add__(self, o):
        return ("add", self.n, o)

    def __len__(self):
        return self.n

    def __repr__(self):
        return "Obj(%r,%r)" % (self.n, self.items)


Point = __import__("collections").namedtuple("Point", "x y")


def pool():
    return [
        Point(1, 2),
        True, False, 0, 1, -3, 7, 10 ** 20, 0.0, 1.5, -2.25, float("inf"), float("nan"), 1 + 2j,
        "", "abc", "12", "%s-%s", b"xy", (), (1, 2), [], [1, 2, 3], {}, {"a": 1, 1: "x"}, set(), {1, 2},
        frozenset({1}), None, Fraction(3, 4), Decimal("1.5"), range(3), Obj(2), bytearray(b"ab"),
    ]


BINOPS = {
    "add": operator.add, "sub": operator.sub, "mul": operator.mul, "truediv": operator.truediv,
    "floordiv": operator.floordiv, "mod": operator.mod, "divmod": divmod, "pow": pow,
    "lshift": operator.lshift, "rshift": operator.rshift, "and": operator.and_, "xor": operator.xor,
    "or": operator.or_, "getitem": operator.getitem, "contains": lambda a, b: b in a,
}
UNOPS = {
    "neg": operator.neg, "pos": operator.pos, "abs": abs, "invert": operator.invert, "complex": complex,
    "int": int, "float": float, "round": round, "trunc": math.trunc, "floor": math.floor,
    "ceil": math.ceil, "len": len, "iter": lambda x: list(iter(x)),
}


def explosive(name, v, w):
    big = lambda x: isinstance(x, (int, float, Fraction, Decimal)) and not isinstance(x, bool) and abs(x) > 64 if not (isinstance(x, float) and x != x) else False
    if name in ("pow", "lshift") and big(w):
        return True
    if name == "pow" and big(v) and isinstance(w, (int, float, Fraction, Decimal)) and abs(w) > 8:
        return True
    if name == "mul" and (big(w) and hasattr(v, "__len__") or big(v) and hasattr(w, "__len__")):
        return True
    return False


def outcome(f, *a):
    try:
        r = f(*a)
    except Exception as e:
        return ("exc", type(e).__name__, None)
    return ("ok", type(r).__name__, r)


def same(a, b):
    if a[0] != b[0] or a[1] != b[1]:
        return False
    if a[0] == "exc":
        return True
    x, y = a[2], b[2]
    try:
        if x == y:
            return True
    except Exception:
        pass
    try:
        return repr(x) == repr(y)
    except Exception:
        return False


def kind(o):
    return o[0] if o[0] == "ok" else "exc:" + o[1]


def brief(v):
    r = repr(v)
    return r if len(r) < 60 else r[:57] + "..."


class Runner(object):
    def __init__(self, ctx):
        from more_executors import f_proxy, f_return, f_return_error, f_nocancel
        from more_executors.futures import f_return_cancelled
        self.f_proxy, self.f_return, self.f_return_error = f_proxy, f_return, f_return_error
        self.f_nocancel, self.f_return_cancelled = f_nocancel, f_return_cancelled
        self.ctx = ctx

    def compare(self, name, fn, v, operands, extra_obs=None):
        """Differential on a resolved input. extra_obs(target) observes side effects."""
        ctx = self.ctx
        v1, v2 = copy.deepcopy(v), copy.deepcopy(v)
        ops1, ops2 = copy.deepcopy(operands), copy.deepcopy(operands)
        exp = outcome(fn, v1, *ops1)
        p = self.f_proxy(self.f_return(v2))
        got = outcome(fn, p, *ops2)
        ok = same(exp, got)
        if ok and extra_obs is not None:
            ok = same(("ok", "x", extra_obs(v1)), ("ok", "x", extra_obs(v2)))
        tl = type(v).__name__
        tr = ",".join(type(o).__name__ for o in operands)
        case = {"op": name, "left": brief(v), "right": [brief(o) for o in operands], "state": "resolved"}
        nt = exp[0] == "exc" or (operands and tr != tl)
        key = {"k": [name, tl, tr, "resolved", kind(exp)]}
        ctx.case(key, nt, ["op:" + name, "plain:" + exp[0]],
                 sample={"case": case, "plain": [kind(exp), brief(exp[2])], "proxy": [kind(got), brief(got[2])]})
        if not ok:
            sig = "C17:%s:%s->%s" % (name, kind(exp), kind(got))
            ctx.violation(sig, {"kind": "diff", "op": name, "left": enc(v), "right": [enc(o) for o in operands]},
                          {"plain": [kind(exp), brief(exp[2])], "proxy": [kind(got), brief(got[2])], "case": case})
        return ok


# ---- value encoding for replay files --------------------------------------
def enc(v):
    return repr(v)


def dec(s):
    env = {"Fraction": Fraction, "Decimal": Decimal, "Obj": lambda n, items=None: Obj(n), "inf": float("inf"),
           "nan": float("nan"), "bytearray": bytearray, "frozenset": frozenset, "range": range, "set": set}
    return eval(s, env)


def op_by_name(name):
    if name in BINOPS:
        return BINOPS[name]
    if name in UNOPS:
        return UNOPS[name]
    if name == "pow3":
        return pow
    if name == "round2":
        return round
    if name == "setitem":
        return lambda t, k, x: operator.setitem(t, k, x)
    if name == "delitem":
        return lambda t, k: operator.delitem(t, k)
    if name.startswith("getattr:"):
        return getattr_op(name.split(":", 1)[1])
    raise KeyError(name)


def getattr_op(attr):
    def f(t):
        a = getattr(t, attr)
        if callable(a):
            try:
                return ("called", a())
            except TypeError:
                return ("callable", type(a).__name__ != "")
        return ("attr", a)
    return f


FUTURE_ATTRS = None


def attr_names(v):
    global FUTURE_ATTRS
    if FUTURE_ATTRS is None:
        from more_executors._impl.futures.proxy import ProxyFuture
        FUTURE_ATTRS = set(dir(ProxyFuture))
    # (names with ONE leading underscore are ordinary attributes: namedtuple._fields, obj._protected; only __dunder__ lookups are special)
    return [n for n in dir(v) if not n.startswith("__") and not n.startswith("_Obj") and n not in FUTURE_ATTRS
            and n not in ("clear", "pop", "popitem", "sort", "reverse", "append", "extend", "insert", "remove", "update",
                          "add", "discard", "setdefault", "copy", "as_integer_ratio", "hex", "fromhex", "fromkeys")]


# ---- shards -----------------------------------------------------------------
def shards(tier, seed):
    specs = [{"mode": "enum", "part": i, "parts": 8} for i in range(8)]
    specs.append({"mode": "states"})
    specs.append({"mode": "compositions"})
    specs.append({"mode": "timing", "seed": seed, "n": 60 if tier == "quick" else 600})
    n = 2500 if tier == "quick" else 40000
    for i in range(6):
        specs.append({"mode": "random", "seed": seed * 1000 + i, "n": n})
    return specs


def run_shard(spec, ctx):
    mode = spec["mode"]
    if mode == "enum":
        run_enum(spec, ctx)
    elif mode == "states":
        run_states(ctx)
    elif mode == "compositions":
        run_compositions(ctx)
    elif mode == "timing":
        run_timing(spec, ctx)
    elif mode == "random":
        run_random(spec, ctx)


def run_enum(spec, ctx):
    r = Runner(ctx)
    vals = pool()
    n = 0
    idx = 0
    for name, op in sorted(BINOPS.items()):
        for v in vals:
            for w in vals:
                idx += 1
                if idx % spec["parts"] != spec["part"]:
                    continue
                if explosive(name, v, w):
                    continue
                r.compare(name, op, v, [w])
                n += 1
    if spec["part"] == 0:
        for name, op in sorted(UNOPS.items()):
            for v in vals:
                r.compare(name, op, v, [])
                n += 1
        for v in [2, 3, 2.5, "a", Fraction(1, 2), True]:
            for w in [3, -1, "x", 0]:
                for m in [5, 0, None, "m", -3]:
                    r.compare("pow3", pow, v, [w, m])
                    n += 1
        for v in [1.2345, 7, Fraction(1, 3), "a", Decimal("2.675"), True, 12345]:
            for nd in [0, 2, -1, None, "x", -3]:
                r.compare("round2", round, v, [nd])
                n += 1
        for v in [[1, 2, 3], {"a": 1}, (1, 2), "abc", bytearray(b"abc"), Obj(1), {1, 2}, None, 5]:
            for k in [0, 1, 5, -1, "a", "zz", slice(0, 2), None]:
                r.compare("setitem", op_by_name("setitem"), v, [k, 9], extra_obs=lambda t: t)
                r.compare("delitem", op_by_name("delitem"), v, [k], extra_obs=lambda t: t)
                n += 2
        for v in vals:
            for a in attr_names(v) + ["no_such_attribute"]:
                r.compare("getattr:" + a, getattr_op(a), v, [])
                n += 1
    ctx.exhaustive.append({"domain": "value pool x forwarded operators (part %d/%d)" % (spec["part"], spec["parts"]),
                           "size": n, "complete": True})


def run_states(ctx):
    """failed input; pending input (non-blocking clauses); f_nocancel contract."""
    from concurrent.futures import Future, CancelledError
    from concurrent.futures import TimeoutError as FTimeout
    r = Runner(ctx)
    from world_exc import E1, AttrErr
    allops = [(n, f, []) for n, f in sorted(UNOPS.items())] + [(n, f, [1]) for n, f in sorted(BINOPS.items())]
    allops += [("getattr:foo", getattr_op("foo"), [])]
    # (1) failed input: every forwarded op raises f's own exception
    for exc_cls in (E1, AttrErr, KeyError, ZeroDivisionError):
        for name, f, ops in allops:
            e = exc_cls("boom")
            p = r.f_proxy(r.f_return_error(e))
            try:
                f(p, *ops)
                got = "returned"
            except BaseException as x:
                got = "same" if x is e else "other:" + type(x).__name__
            case = {"k": [name, exc_cls.__name__, "failed"]}
            ctx.case(case, True, ["state:failed"], sample={"op": name, "input_failed_with": exc_cls.__name__, "got": got})
            if got != "same":
                ctx.violation("C17:failed-input:%s:%s" % (name, got), {"kind": "failed", "op": name, "exc": exc_cls.__name__}, {"got": got})
    # (2) pending input: truth test, repr, str, ==, hash, unknown dunder must not block nor resolve
    nonblocking = [
        ("bool", lambda p: bool(p)), ("repr", lambda p: repr(p)), ("str", lambda p: str(p)),
        ("eq", lambda p: p == 1), ("ne", lambda p: p != 1), ("hash", lambda p: hash(p)),
        ("dunder", lambda p: getattr(p, "__unknown__", "dflt")),
        ("dunder2", lambda p: hasattr(p, "__fspath__")),
        ("in_list", lambda p: p in [1, 2]), ("dict_key", lambda p: {p: 1}[p]),
    ]
    for name, f in nonblocking:
        src = Future()
        p = r.f_proxy(src, timeout=0.05)
        o = outcome(f, p)
        still_pending = not src.done() and not p.done()
        case = {"k": [name, "pending"]}
        ctx.case(case, True, ["state:pending"], sample={"op": name, "input": "pending", "outcome": [kind(o), brief(o[2])]})
        if o[0] != "ok" or not still_pending:
            ctx.violation("C17:pending-blocks:%s:%s" % (name, kind(o)), {"kind": "pending", "op": name}, {"outcome": kind(o), "still_pending": still_pending})
    # forwarded op on a pending input with a timeout raises TimeoutError (not block forever)
    for name, f, ops in allops:
        src = Future()
        p = r.f_proxy(src, timeout=0.01)
        o = outcome(f, p, *ops)
        case = {"k": [name, "pending-timeout"]}
        ctx.case(case, True, ["state:pending-timeout"])
        if o[:2] != ("exc", "TimeoutError"):
            ctx.violation("C17:pending-timeout:%s:%s" % (name, kind(o)), {"kind": "pending_timeout", "op": name}, {"outcome": kind(o)})
    # (3) f_nocancel
    for how in ("value", "error", "cancel_before", "cancel_after", "pending"):
        cancels = []

        class Rec(Future):
            def cancel(self):
                cancels.append(1)
                return Future.cancel(self)

        src = Rec()
        e = E1("x")
        if how == "cancel_before":
            Future.cancel(src)
            src.set_running_or_notify_cancel()
        nc = r.f_nocancel(src)
        c1 = nc.cancel()
        if how == "value":
            src.set_result(("v", 1))
        elif how == "error":
            src.set_exception(e)
        elif how == "cancel_after":
            Future.cancel(src)
            src.set_running_or_notify_cancel()
        c2 = nc.cancel()
        problems = []
        if c1 is not False or c2 is not False:
            problems.append("cancel-returned-%r/%r" % (c1, c2))
        if cancels:
            problems.append("input-got-cancel")
        if how == "value" and not (nc.done() and not nc.cancelled() and nc.exception() is None and nc.result() == ("v", 1)):
            problems.append("value-not-mirrored")
        if how == "error" and not (nc.done() and not nc.cancelled() and nc.exception() is e):
            problems.append("error-not-mirrored")
        if how in ("cancel_before", "cancel_after") and not nc.done():
            problems.append("cancelled-input-not-mirrored(pending)")
        if how == "pending" and nc.done():
            problems.append("done-while-input-pending")
        # mirroring includes the waiter API: a wrapper that is done must be reported as done by wait()
        import concurrent.futures as _cf
        if nc.done() and _cf.wait([nc], timeout=0).not_done:
            problems.append("done-but-wait()-says-not-done")
        ctx.case({"k": ["nocancel", how]}, True, ["nocancel:" + how], sample={"f_nocancel_input_ends_by": how, "cancel_returns": [c1, c2], "wrapper_done": nc.done()})
        for pr in problems:
            ctx.violation("C17:nocancel:%s:%s" % (how, pr), {"kind": "nocancel", "how": how}, {"problem": pr})


def run_compositions(ctx):
    """(4) the wrapper mirrors f's outcome also when f is itself a library future (proxy of proxy, nocancel of proxy, ...),
    whether f ends before or after it is wrapped; (5) operation SEQUENCES on a proxy of a mutable result: every read
    reflects the current state of the result (read, mutate, read again)."""
    from concurrent.futures import Future
    import io
    import types
    import collections
    from more_executors import f_proxy, f_nocancel, f_map, f_return
    from world_exc import E1, AttrErr
    inner_kinds = {
        "plain": lambda src: src,
        "proxy": lambda src: f_proxy(src),
        "proxy2": lambda src: f_proxy(f_proxy(src)),
        "nocancel": lambda src: f_nocancel(src),
        "map": lambda src: f_map(src, lambda x: x),
    }
    outer_kinds = {"nocancel": f_nocancel, "proxy": f_proxy, "map": lambda f: f_map(f, lambda x: x)}
    class Abort(BaseException):
        """a failure that is not an Exception (as KeyboardInterrupt / SystemExit are), stored with set_exception()"""

    hows = [("value", None), ("error", E1), ("error", AttrErr), ("error", KeyError), ("error", Abort), ("cancel", None)]
    for (iname, imk), (oname, omk), (how, exc_cls), when in itertools.product(sorted(inner_kinds.items()), sorted(outer_kinds.items()), hows, ("before", "after")):
        src = Future()
        e = exc_cls("boom") if exc_cls else None

        def finish():
            if how == "value":
                src.set_result(("v", 7))
            elif how == "error":
                src.set_exception(e)
            else:
                Future.cancel(src)
                src.set_running_or_notify_cancel()

        problems = []
        try:
            if when == "before":
                finish()
            inner = imk(src)
            outer = omk(inner)
            if when == "after":
                finish()
        except BaseException as x:
            problems.append("construction-or-completion-raised:%s" % type(x).__name__)
            outer = None
        if outer is not None:
            if not outer.done():
                problems.append("wrapper-still-pending")
            elif how == "value" and not (not outer.cancelled() and outer.exception() is None and outer.result() == ("v", 7)):
                problems.append("value-not-mirrored")
            elif how == "error" and not (not outer.cancelled() and outer.exception() is e):
                problems.append("error-not-mirrored")
            elif how == "cancel" and not (outer.cancelled() or outer.exception() is not None):
                problems.append("cancel-not-mirrored")
            import concurrent.futures as _cf
            if outer.done() and _cf.wait([outer], timeout=0).not_done:
                problems.append("done-but-wait()-says-not-done")
        key = {"k": ["compose", oname, iname, how, exc_cls.__name__ if exc_cls else None, when]}
        ctx.case(key, True, ["compose:%s(%s)" % (oname, iname), "ends:" + how], sample={"wrapper": oname, "of": iname, "input_ends_by": how, "when": when, "problems": problems})
        for pr in problems:
            ctx.violation("C17:compose:%s(%s):%s:%s" % (oname, iname, how, pr),
                          {"kind": "compose", "outer": oname, "inner": iname, "how": how, "exc": exc_cls.__name__ if exc_cls else None, "when": when}, {"problem": pr})
    # (5) sequences
    targets = {
        "Obj": (lambda: Obj(3), [("get", "n"), ("get", "items"), ("call", "method", ()), ("mut", "set_n"), ("mut", "del_n"), ("mut", "append_item")]),
        "StringIO": (lambda: io.StringIO("abc"), [("get", "closed"), ("call", "getvalue", ()), ("call", "close", ()), ("call", "tell", ())]),
        "namespace": (lambda: types.SimpleNamespace(a=1, b=[1]), [("get", "a"), ("get", "b"), ("get", "c"), ("mut", "set_a"), ("mut", "del_a"), ("mut", "set_c")]),
        "defaultdict": (lambda: collections.defaultdict(list, {1: [2]}), [("get", "default_factory"), ("call", "__getitem__", (5,)), ("mut", "set_factory"), ("call", "keys", ())]),
        "list": (lambda: [3, 1, 2], [("call", "append", (9,)), ("call", "sort", ()), ("call", "pop", ()), ("call", "__len__", ()), ("call", "copy", ())]),
    }
    muts = {
        "set_n": lambda o: setattr(o, "n", o.n + 10 if hasattr(o, "n") else 1), "del_n": lambda o: delattr(o, "n") if hasattr(o, "n") else None,
        "append_item": lambda o: o.items.append(7), "set_a": lambda o: setattr(o, "a", 99), "del_a": lambda o: delattr(o, "a") if hasattr(o, "a") else None,
        "set_c": lambda o: setattr(o, "c", "new"), "set_factory": lambda o: setattr(o, "default_factory", int),
    }

    def obs(x):
        if isinstance(x, (types.GeneratorType,)) or type(x).__name__ in ("dict_keys",):
            return ("view", sorted(list(x), key=repr))
        return x

    def run_seq(target, seq, through_proxy):
        under = target()
        subject = f_proxy(f_return(under)) if through_proxy else under
        out = []
        for step in seq:
            if step[0] == "mut":
                muts[step[1]](under)  # the result object changes behind the proxy's back
                out.append(("mut", step[1]))
            elif step[0] == "get":
                o = outcome(lambda t: getattr(t, step[1]), subject)
                out.append((o[0], o[1], obs(o[2]) if o[0] == "ok" else None))
            else:
                o = outcome(lambda t: getattr(t, step[1])(*step[2]), subject)
                out.append((o[0], o[1], obs(o[2]) if o[0] == "ok" else None))
        return out

    n = 0
    for tname, (target, alphabet) in sorted(targets.items()):
        for L in (1, 2, 3):
            for seq in itertools.product(alphabet, repeat=L):
                plain = run_seq(target, seq, False)
                prox = run_seq(target, seq, True)
                n += 1
                ok = repr(plain) == repr(prox)
                nt = L >= 2 and any(s[0] == "mut" or s[1] in ("close", "append", "sort", "pop", "__getitem__") for s in seq[:-1])
                ctx.case({"k": ["seq", tname, [list(x[:2]) for x in seq]]}, nt, ["seq:" + tname, "len:%d" % L],
                         sample={"target": tname, "sequence": [list(x[:2]) for x in seq], "plain": brief(plain), "proxy": brief(prox)})
                if not ok:
                    last = [i for i, (a, b) in enumerate(zip(plain, prox)) if repr(a) != repr(b)][0]
                    ctx.violation("C17:sequence:%s:%s-after-%s" % (tname, seq[last][1], "+".join(x[1] for x in seq[:last]) or "nothing"),
                                  {"kind": "seq", "target": tname, "seq": [list(x) for x in seq]}, {"plain": brief(plain), "proxy": brief(prox)})
    ctx.exhaustive.append({"domain": "operation sequences (length <= 3) on proxies of mutable results", "size": n, "complete": True})


def timing_case(op_name, t_complete, timeout, how):
    """pending input resolved at virtual time t_complete by another thread; proxy timeout `timeout`."""
    import vsched
    vsched.install(harness.REPO)
    from more_executors import f_proxy
    from concurrent.futures import Future
    out = {}

    def completer(src):
        vsched.v_sleep(t_complete)
        if how == "value":
            src.set_result(7)
        else:
            src.set_exception(KeyError("k"))

    def user():
        s = vsched.CURRENT
        src = Future()
        p = f_proxy(src, timeout=timeout) if timeout is not None else f_proxy(src)
        vt = s.spawn_client("completer", completer, src)
        f = op_by_name(op_name)
        t0 = vsched.v_monotonic()
        try:
            r = f(p, *([2] if op_name in BINOPS else []))
            out["res"] = ("ok", r)
        except Exception as e:
            out["res"] = ("exc", type(e).__name__)
        out["t"] = vsched.v_monotonic() - t0
        s.join_client(vt)

    s = vsched.run_case([("user", user)], max_vtime=1e5)
    out["end"] = s.end_reason
    return out


def eval_timing(case):
    out = timing_case(case["op"], case["t_complete"], case["timeout"], case["how"])
    viols = []
    tmo = case["timeout"]
    fires = tmo is not None and tmo < case["t_complete"]
    if tmo is not None and abs(tmo - case["t_complete"]) < 1e-6:
        # timeout and completion fall on the same instant: either order is legal
        return viols, out
    if out.get("end") != "done" or "res" not in out:
        viols.append(("C17:timing:hang", out))
        return viols, out
    if fires:
        if out["res"] != ("exc", "TimeoutError") or abs(out["t"] - tmo) > 1e-2:
            viols.append(("C17:timing:timeout-not-honoured:%s" % (out["res"][0],), out))
    else:
        plain = outcome(op_by_name(case["op"]), 7, *([2] if case["op"] in BINOPS else [])) if case["how"] == "value" else ("exc", "KeyError", None)
        got = out["res"]
        ok = (got[0] == plain[0]) and (got[1] == plain[2] if got[0] == "ok" else got[1] == plain[1])
        if not ok or abs(out["t"] - case["t_complete"]) > 1e-2:
            viols.append(("C17:timing:late-or-wrong:%s" % (got[0],), out))
    return viols, out


def run_timing(spec, ctx):
    from hypothesis import given, settings, seed, strategies as st, Phase, HealthCheck
    ops = sorted(list(UNOPS) + list(BINOPS))
    strat = st.fixed_dictionaries({
        "kind": st.just("timing"),
        "op": st.sampled_from(ops),
        "t_complete": st.sampled_from([0.25, 0.5, 1.0, 2.0, 3.5]),
        "timeout": st.sampled_from([None, 0, 0.0, 0.1, 0.25, 0.75, 1.0, 3.0, 100.0]),
        "how": st.sampled_from(["value", "error"]),
    })

    @seed(spec["seed"])
    @settings(max_examples=spec["n"], database=None, deadline=None, phases=[Phase.generate, Phase.shrink],
              suppress_health_check=list(HealthCheck), report_multiple_bugs=False)
    @given(strat)
    def test(case):
        viols, out = eval_timing(case)
        ctx.case(case, True, ["state:pending-then-resolved", "timeout_fires:%s" % (case["timeout"] is not None and case["timeout"] < case["t_complete"])],
                 sample={"case": case, "observed": {"result": list(out.get("res", [])), "elapsed_virtual_s": round(out.get("t", -1), 4)}})
        new = False
        for sig, d in viols:
            if ctx.violation(sig, case, {"observed": repr(d)}):
                new = True
        if new:
            raise harness.Violation("x")

    try:
        test()
    except harness.Violation:
        pass


def values():
    from hypothesis import strategies as st
    scal = st.one_of(
        st.booleans(), st.integers(-10, 10), st.integers(-2 ** 70, 2 ** 70), st.floats(allow_nan=True, allow_infinity=True, width=64),
        st.complex_numbers(max_magnitude=1e6, allow_nan=False), st.text(max_size=6), st.binary(max_size=6), st.none(),
        st.fractions(max_denominator=20), st.decimals(allow_nan=False, allow_infinity=False, places=2, min_value=-1000, max_value=1000),
    )
    hashable = st.one_of(st.integers(-5, 5), st.text(max_size=3), st.booleans(), st.none())
    return st.recursive(
        scal,
        lambda ch: st.one_of(
            st.lists(ch, max_size=4), st.tuples(ch, ch), st.dictionaries(hashable, ch, max_size=3),
            st.sets(hashable, max_size=4), st.frozensets(hashable, max_size=3)),
        max_leaves=6)


def run_random(spec, ctx):
    from hypothesis import given, settings, seed, strategies as st, Phase, HealthCheck
    r = Runner(ctx)
    names = sorted(BINOPS) + sorted(UNOPS) + ["pow3", "round2", "setitem", "delitem"]

    @seed(spec["seed"])
    @settings(max_examples=spec["n"], database=None, deadline=None, phases=[Phase.generate, Phase.shrink],
              suppress_health_check=list(HealthCheck), report_multiple_bugs=False)
    @given(st.sampled_from(names), values(), values(), values())
    def test(name, v, w, x):
        if name in BINOPS:
            if explosive(name, v, w):
                w = 2
            ops = [w]
        elif name in UNOPS:
            ops = []
        elif name == "pow3":
            if explosive("pow", v, w):
                w = 3
            ops = [w, x]
        elif name == "round2":
            if isinstance(w, (int, float, Fraction, Decimal)) and not isinstance(w, bool) and w == w and abs(w) > 50:
                w = 3  # round(x, 10**20) computes 10**ndigits on the plain value too
            ops = [w]
        elif name == "setitem":
            ops = [w, x]
        else:
            ops = [w]
        before = len(ctx._viol)
        ok = r.compare(name, op_by_name(name), v, ops, extra_obs=(lambda t: t) if name in ("setitem", "delitem") else None)
        if not ok:
            sig = [s for s in ctx._viol if s not in ctx.suppressed and s not in ctx.known]
            if sig:
                raise harness.Violation(sig[0])

    for rnd in range(6):
        try:
            test()
            break
        except harness.Violation:
            ctx.suppressed.update(ctx._viol.keys())


def replay(case):
    ctx = harness.ShardCtx({}, [])
    k = case.get("kind")
    if k == "diff":
        r = Runner(ctx)
        ops = [dec(o) for o in case["right"]]
        r.compare(case["op"], op_by_name(case["op"]), dec(case["left"]), ops,
                  extra_obs=(lambda t: t) if case["op"] in ("setitem", "delitem") else None)
    elif k == "timing":
        viols, out = eval_timing(case)
        return [{"signature": s, "detail": {"observed": repr(d)}} for s, d in viols]
    elif k in ("compose", "seq"):
        run_compositions(ctx)
    else:
        run_states(ctx)
    return [{"signature": s, "detail": v["detail"]} for s, v in ctx._viol.items()]
