"""C15 - f_zip / f_sequence / f_traverse keep positions and propagate the first failure."""
import itertools

import harness
import combo
import progs
import world

PROPERTY = "C15"
LEVEL = "exploration"
RULE = (
    "cases = (f_zip|f_sequence|f_traverse, argument list with optional duplicates / already-done inputs, outcome per input from "
    "{value, exception, cancelled, never}, completion events over 1-3 threads, optional cancel of the output, tape; for f_traverse a "
    "scripted fn over a list or one-shot iterator, possibly raising at element k - a StopIteration at odd k). Enumerated: all outcome "
    "assignments x completion orders for n<=4 (thorough n<=5), n=0, duplicates, pre-done masks, output-cancel positions; one case "
    "with 1000 inputs; Hypothesis: concurrent completions with tapes. Oracle: success => position-wise results (tuple for f_zip, list "
    "otherwise); else the first non-success of some linearisation consistent with real time; output cancel => every pending input got "
    "cancel(); fn called once per element in order. Non-trivial = out-of-order or overlapping completion, or a failure/cancel among "
    ">=2 inputs. Distinct = digest of the case."
)
ASSUMPTIONS = ["inputs already done at call time are taken to finish in argument order"]


def expr_of(case):
    comb = case["comb"]
    if comb == "f_traverse":
        beh = []
        for k, i in enumerate(case["args"]):
            if case.get("fn_raises") == k:
                beh.append(["raise", "SI" if k % 2 else "E3"])  # (at odd positions the function fails with a StopIteration)
                break
            beh.append(["fut", "src", combo.src(i)])
        return ["f_traverse", beh, list(range(len(case["args"]))), "iter" if case.get("iter") else "list"]
    # (an input may be handed over wrapped in f_proxy: transparent for results, failures and cancel requests)
    prox = set(case.get("proxied", ()))
    return [comb] + [["f_proxy", ["src", combo.src(i)]] if i in prox else ["src", combo.src(i)] for i in case["args"]]


def model(case, lin):
    args = case["args"]
    if case["comb"] == "f_traverse" and case.get("fn_raises") is not None and case["fn_raises"] < len(args):
        return ("e", ("c", "out.tfn", case["fn_raises"]))
    pre = case.get("predone", {})
    seq = []
    seen = []
    for i in args:
        if str(i) in pre and i not in seen:
            seen.append(i)
            seq.append((i, combo.outcome_of_spec(pre[str(i)], combo.src(i))))
    for ev in lin:
        if ev["kind"] == "c" and not ev["noop"]:
            seq.append((ev["input"], combo.outcome_of_spec(ev["spec"], combo.src(ev["input"]))))
    vals = {}
    for i, oc in seq:
        if i in vals:
            continue
        vals[i] = oc
        if oc[0] != "v":
            return oc
    if all(i in vals for i in args):
        return ("v", tuple(vals[i][1] for i in args))
    return ("pending",)


def evaluate(case):
    s, w, obs = combo.run(case, expr_of(case))
    viols = []
    info = {"end": obs["end"], "concurrent": combo.concurrent(obs["events"]), "steps": s.steps}
    comb = case["comb"]

    def bad(sig, **detail):
        detail["observed"] = {"final": obs["final"], "cancel_calls": obs["cancel_calls"], "events": obs["events"]}
        viols.append({"signature": "C15:%s:%s" % (comb, sig), "detail": detail})

    if obs["end"] != "done" or obs["unfinished"]:
        bad("hang", end=obs["end"], unfinished=obs["unfinished"])
        return viols, info
    cons = obs["construct"]
    if cons["result"][0] != "ok":
        bad("constructor-raised:%s" % (cons["result"][1] if len(cons["result"]) > 1 else cons["result"][0]), result=cons["result"])
        return viols, info
    for rec in obs["logs"]:
        if rec[3] in ("KeyError", "AssertionError", "InvalidStateError", "TypeError", "AttributeError", "IndexError"):
            bad("internal-exception-logged:%s" % rec[3], log=rec)
    fin = obs["final"].get("out")
    got = combo.out_state(fin)
    xres = [e["result"] for e in obs["events"] if e["kind"] == "x"]
    expected = []
    ok = False
    if any(r == ["ok", True] for r in xres):
        expected = [("c",)]
        ok = got == ("c",)
    else:
        for lin in combo.linearisations([e for e in obs["events"] if e["kind"] != "x"]):
            exp = model(case, lin)
            if exp not in expected:
                expected.append(exp)
            if exp[0] == got[0] and (exp[0] != "v" and exp == got or exp[0] == "v" and world.jsonable(exp[1]) == world.jsonable(got[1])):
                ok = True
                break
        if ok and xres and got == ("pending",):
            ok = False
    info["expected"] = expected[:4]
    info["got"] = got
    if not ok:
        bad("wrong-outcome:%s-for-%s" % (got[0], "|".join(sorted(set(e[0] for e in expected)))), expected=expected[:6], got=got)
    elif got[0] == "v":
        want = "tuple" if comb == "f_zip" else "list"
        if fin.get("vtype") != want:
            bad("wrong-container:%s" % fin.get("vtype"), want=want)
    # cancel fan-out: inputs are cancelled only when the output ended cancelled; then every pending one is
    completed = set(int(i) for i in case.get("predone", {})) | set(e["input"] for e in obs["events"] if e["kind"] == "c" and not e["noop"])
    fn_failed = comb == "f_traverse" and case.get("fn_raises") is not None
    for i in sorted(set(case["args"])):
        calls = obs["cancel_calls"].get(combo.src(i), [])
        if got == ("c",) and i not in completed and not calls and not fn_failed:
            bad("pending-input-not-cancelled", input=i)
        if got != ("c",) and calls:
            bad("input-cancelled-but-output-%s" % got[0], input=i)
    if comb == "f_traverse":
        calls = [e for e in s.events if e[3] == "call" and e[4]["fn"] == "out.tfn"]
        n_expected = len(case["args"]) if case.get("fn_raises") is None else min(case["fn_raises"] + 1, len(case["args"]))
        argsseen = [e[4]["args"][0] for e in calls]
        if len(calls) != n_expected or argsseen != list(range(n_expected)):
            bad("fn-calls", calls=argsseen, expected=list(range(n_expected)))
    return viols, info


def nontrivial(case, info):
    if info.get("concurrent"):
        return True
    evs = [e for t in case["threads"] for e in t if e[0] == "c"]
    order = [e[1] for e in evs]
    if len(order) >= 2 and order != sorted(order):
        return True
    return len(case["args"]) >= 2 and any(e[2] != "value" for e in evs)


def account(ctx, case, viols, info, extra=()):
    cls = ["comb:" + case["comb"], "n:%d" % min(len(case["args"]), 9), "concurrent:%s" % info.get("concurrent"),
           "out:%s" % (info.get("got") or ("?",))[0]] + list(extra)
    small = case if len(case["args"]) < 20 else {"comb": case["comb"], "n": len(case["args"]), "note": "large case"}
    ctx.case(case, nontrivial(case, info), cls, sample={"case": small, "expected_any_of": [e if e[0] != "v" or len(e[1]) < 20 else ["v", "..."] for e in (info.get("expected") or [])],
                                                         "got": info.get("got") if len(case["args"]) < 20 else (info.get("got") or ("?",))[0]})
    new = False
    for v in viols:
        if ctx.violation(v["signature"], case, v["detail"]):
            new = True
    return new


KINDS = ["V", "E", "C", "N"]


def spec_of(kind, variant=0):
    if kind == "V":
        return ["value", [variant % 7, "p"]]
    if kind == "E":
        return ["error", ("E1", "CE", "EF")[variant % 3]]  # (also: a falsy exception instance; a CancelledError INSTANCE as the failure)
    if kind == "C":
        return ["cancel"]
    return None


def enum_cases(maxn, part, parts):
    idx = 0
    for comb in ("f_zip", "f_sequence", "f_traverse"):
        yield {"comb": comb, "n": 0, "args": [], "threads": [[]], "tape": []}
        for n in range(1, maxn + 1):
            for kinds in itertools.product(KINDS, repeat=n):
                live = [i for i in range(n) if kinds[i] != "N"]
                for order in itertools.permutations(live):
                    idx += 1
                    if idx % parts != part:
                        continue
                    evs = [["c", i] + spec_of(kinds[i], idx + i) for i in order]
                    yield {"comb": comb, "n": n, "args": list(range(n)), "threads": [evs], "tape": [], "iter": bool(idx % 2)}
        for n in range(2, 4):
            for kinds in itertools.product(["V", "E", "C"], repeat=n):
                idx += 1
                if idx % parts != part:
                    continue
                for mask in range(1, 2 ** n):
                    pre = dict((str(i), spec_of(kinds[i], idx + i)) for i in range(n) if mask >> i & 1)
                    rest = [i for i in range(n) if not mask >> i & 1]
                    for order in itertools.permutations(rest):
                        evs = [["c", i] + spec_of(kinds[i], idx) for i in order]
                        yield {"comb": comb, "n": n, "args": list(range(n)), "predone": pre, "threads": [evs], "tape": []}
                for order in itertools.permutations(range(n)):
                    evs = [["c", i] + spec_of(kinds[i], idx + i) for i in order]
                    yield {"comb": comb, "n": n, "args": [0] + list(range(n)) + [n - 1], "threads": [evs], "tape": []}
                    for pos in range(n + 1):
                        yield {"comb": comb, "n": n, "args": list(range(n)), "threads": [evs[:pos] + [["x"]] + evs[pos:]], "tape": []}
                    if comb == "f_traverse":
                        for k in range(n):
                            yield {"comb": comb, "n": n, "args": list(range(n)), "threads": [evs], "tape": [], "fn_raises": k}
    # every number of inputs up to 40 and around powers of two (the output type changes with the count: named tuples up to a
    # limit, plain tuples beyond), all succeeding, completed in order / in reverse / before the call
    sizes = list(range(5, 41)) + [63, 64, 65, 127, 128, 129, 255, 256, 257]
    for comb in ("f_zip", "f_sequence", "f_traverse"):
        for n in sizes:
            for how in ("forward", "reverse", "predone"):
                idx += 1
                if idx % parts != part:
                    continue
                order = list(range(n)) if how != "reverse" else list(reversed(range(n)))
                evs = [["c", i, "value", i] for i in order]
                if how == "predone":
                    yield {"comb": comb, "n": n, "args": list(range(n)), "predone": dict((str(i), ["value", i]) for i in range(n)), "threads": [[]], "tape": [], "max_steps": 10 ** 6}
                else:
                    yield {"comb": comb, "n": n, "args": list(range(n)), "threads": [evs], "tape": [], "max_steps": 10 ** 6}
    if part == 0:
        n = 1000
        for comb in ("f_zip", "f_sequence"):
            evs = [["c", i, "value", i] for i in reversed(range(n))]
            yield {"comb": comb, "n": n, "args": list(range(n)), "threads": [evs], "tape": [], "max_steps": 10 ** 6}


def conc_catalog():
    """Inputs completed by two or three threads at the same virtual instant (single pre-emption sweeps)."""
    out = {}
    for comb in ("f_zip", "f_sequence", "f_traverse"):
        for kinds in (("V", "V"), ("V", "E"), ("E", "E"), ("V", "C"), ("C", "E"), ("V", "V", "V"), ("V", "E", "V")):
            threads = [[["c", i] + spec_of(k, i)] for i, k in enumerate(kinds)]
            out["%s/%s" % (comb, "".join(kinds))] = {"comb": comb, "n": len(kinds), "args": list(range(len(kinds))), "threads": threads, "tape": []}
        # the output is cancelled while the inputs complete
        out["%s/VV+x" % comb] = {"comb": comb, "n": 3, "args": [0, 1, 2], "threads": [[["c", 0] + spec_of("V", 0)], [["c", 1] + spec_of("V", 1)], [["x"]]], "tape": []}
    return out


def shards(tier, seed):
    parts = 12
    maxn = 4 if tier == "quick" else 5
    specs = [{"mode": "enum", "maxn": maxn, "part": i, "parts": parts} for i in range(parts)]
    cc = sorted(conc_catalog())
    for i in range(0, len(cc), 3):
        specs.append({"mode": "conc", "entries": cc[i:i + 3], "double": tier == "thorough"})
    n = 300 if tier == "quick" else 5000
    for i in range(8):
        specs.append({"mode": "random", "seed": seed * 1000 + i, "n": n})
    return specs


def case_strategy():
    from hypothesis import strategies as st
    import gen

    @st.composite
    def cases(draw):
        comb = draw(st.sampled_from(["f_zip", "f_sequence", "f_traverse"]))
        n = draw(st.integers(2, 6))
        kinds = [draw(st.sampled_from(["V", "V", "V", "E", "C", "N"])) for _ in range(n)]
        args = list(range(n))
        if draw(st.integers(0, 4)) == 0:
            args.insert(draw(st.integers(0, n)), draw(st.integers(0, n - 1)))
        pre = {}
        for i in range(n):
            if kinds[i] != "N" and draw(st.integers(0, 5)) == 0:
                pre[str(i)] = spec_of(kinds[i], draw(st.integers(0, 6)))
        nthreads = draw(st.integers(2, 3))
        threads = [[] for _ in range(nthreads)]
        order = draw(st.permutations([i for i in range(n) if kinds[i] != "N" and str(i) not in pre]))
        for i in order:
            threads[draw(st.integers(0, nthreads - 1))].append(["c", i] + spec_of(kinds[i], draw(st.integers(0, 6))))
        if draw(st.integers(0, 3)) == 0:
            t = draw(st.integers(0, nthreads - 1))
            threads[t].insert(draw(st.integers(0, len(threads[t]))), ["x"])
        proxied = sorted(set(draw(st.lists(st.integers(0, n - 1), max_size=2)))) if comb != "f_traverse" and draw(st.integers(0, 2)) == 0 else []
        return {"comb": comb, "n": n, "args": args, "predone": pre, "threads": threads, "proxied": proxied,
                "tape": draw(gen.tapes(6)), "clock": "exact", "iter": draw(st.booleans())}

    return cases()


def run_shard(spec, ctx):
    if spec["mode"] == "enum":
        k = 0
        for case in enum_cases(spec["maxn"], spec["part"], spec["parts"]):
            viols, info = evaluate(case)
            account(ctx, case, viols, info, ["enum"])
            k += 1
        ctx.exhaustive.append({"domain": "f_zip/f_sequence/f_traverse: outcome kinds^n x completion orders, n<=%d; n=0; pre-done masks, duplicates, output-cancel positions, fn raising at k (n<=3); n=1000 reversed (part %d/%d)" % (spec["maxn"], spec["part"], spec["parts"]),
                               "size": k, "complete": True})
    elif spec["mode"] == "conc":
        cat = conc_catalog()
        for name in spec["entries"]:
            base = cat[name]
            v, info = evaluate(base)
            account(ctx, base, v, info, ["conc"])
            n = info.get("steps", 0)
            count = 1
            for i in range(n + 1):
                for p in (0, 1):
                    c = dict(base, tape=[[i, p]])
                    v, info = evaluate(c)
                    account(ctx, c, v, info, ["conc1"])
                    count += 1
                    if spec.get("double"):
                        for j in range(12):
                            c = dict(base, tape=[[i, p], [j, 0]])
                            v, info = evaluate(c)
                            account(ctx, c, v, info, ["conc2"])
                            count += 1
            ctx.exhaustive.append({"domain": "concurrent completion of %s: every single pre-emption%s" % (name, " and windowed pairs" if spec.get("double") else ""),
                                   "size": count, "complete": True})
    else:
        progs.random_search(ctx, spec, case_strategy(), evaluate, account)


def replay(case):
    viols, info = evaluate(case)
    return viols
