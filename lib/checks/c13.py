"""C13 - map / flat_map laws: fn on success, error_fn on failure, exceptions preserved, chains compose."""
import itertools

import harness
import progs
import world
import models

PROPERTY = "C13"
LEVEL = "exploration"
RULE = (
    "cases = (executor form - with_map/with_flat_map layers over a sync or manual base - or f_* form over a source future; chains of "
    "1-4 layers; input outcome value / exception / cancelled-from-outside, already done or completed later from the same or another "
    "thread; fn and error_fn each from {absent, return g(x), raise a new exception, re-raise the same object, return the exception, "
    "return a future that is resolved / failed / cancelled / pending-then-completed by another thread, return a non-future}; tape). "
    "Enumerated: every (form x layer kind x fn x error_fn x input outcome x timing) combination of single layers, and all two-layer "
    "chains over a reduced behaviour set; Hypothesis: chains up to 4 with tapes and an output cancel racing the completion. Oracle: the "
    "reference function from the statement (lib/models.py) gives outcome (identity of propagated exceptions, original raise site still "
    "in __traceback__ after a re-raise), and the number of calls of each fn/error_fn (at most once, only for its own case); pure map "
    "chains are additionally compared with the single composed mapping. Non-trivial = an exception path, a flat_map, or a chain >= 2. "
    "Distinct = digest of the case."
)
ASSUMPTIONS = ["layer functions behave as functions of their argument only"]

# (ISE: the function fails with an InvalidStateError; EQ: an exception type whose instances all compare equal - the error
#  function raises a FRESH one while handling an equal one)
MAP_FN = [None, [["app", "m"]], [["raisearg", "E1"]], [["futarg", "done"]], [["nonfut"]], [["ret", None]], [["raisearg", "ISE"]]]
MAP_ERR = [None, [["app", "h"]], [["reraise"]], [["raisearg", "E2"]], [["retexc"]], [["raisearg", "EQ"]]]
FLAT_FN = [None, [["futarg", "done"]], [["futarg", "err", "E2"]], [["futarg", "cancelled"]], [["fut", "src", "i0"]], [["raisearg", "E1"]], [["nonfut"]], [["app", "m"]], [["ret", None]], [["ret", 0]], [["ret", []]]]
FLAT_ERR = [None, [["futarg", "done"]], [["futarg", "err", "E3"]], [["futarg", "cancelled"]], [["fut", "src", "i1"]], [["reraise"]], [["raisearg", "E2"]], [["nonfut"]], [["ret", None]], [["ret", ""]]]
INNER = [["value"], ["error", "E2"], ["cancel"]]


def build_prog(case):
    layers = case["layers"]
    n = len(layers)
    setup, threads = [], [[], []]
    inp = case["input"]
    timing = case["timing"]
    comp_inner = [["complete", name] + spec for name, spec in sorted(case.get("inner", {}).items())]
    if case["form"] == "exec":
        base = {"kind": "sync"} if timing == "done-before" else {"kind": "manual"}
        setup.append(["build", "ex", {"base": base, "layers": [dict(l) for l in layers]}])
        script = [["raise", inp[1]]] if inp[0] == "error" else [["tag"]]
        first = [["submit", "ex", "S", {"script": script}]]
        run = [["run", "ex", 0]] if inp[0] != "cancel" else [["complete", "ex.base.j0", "cancel"]]
        if timing == "done-before":
            setup += first
        elif timing == "later-same-thread":
            setup += first + [["sleep", 0.01]] + run
        else:
            setup += first + [["sleep", 0.01]]
            threads[1] = [["sleep", 0.5]] + run
        names = ["ex.L%d" % i for i in range(n)]
    else:
        e = ["src", "a"]
        for l in layers:
            e = ["f_" + l["kind"], e, l.get("fn"), l.get("err")]
        comp = ["complete", "a"] + (["value", ["c", "a", 0]] if inp[0] == "value" else ["error"] + list(inp[1:]) if inp[0] == "error" else ["cancel"])
        if timing == "done-before":
            setup += [comp, ["expr", "S", e]]
        elif timing == "later-same-thread":
            setup += [["expr", "S", e], comp]
        else:
            setup += [["expr", "S", e]]
            threads[1] = [["sleep", 0.5], comp]
        names = ["S/%d" % (n - i) for i in range(n)]
    threads[1] = threads[1] + [["sleep", 1.0 if not threads[1] else 0.5]] + comp_inner
    if case.get("cancel_at") is not None:
        threads.append([["sleep", case["cancel_at"]], ["cancel", "S"]])
    prog = {"setup": setup, "threads": threads, "settle": 1.0, "final": [["state", "S"]]}
    return prog, names


def expected(case, names):
    stack = {"layers": case["layers"]}
    m = models.StackModel("ex", stack)
    m.names = names
    m.inner = case.get("inner", {})
    inp = case["input"]
    # feed the input outcome through the layers
    st = {"inv": 0, "elapsed": 0.0, "calls": {}, "script": None, "fn": None, "policy": None, "delays": []}
    if case["form"] == "exec":
        oc0 = models.V(["c", "S.fn", 0]) if inp[0] == "value" else models.E(inp[1], ["c", "S.fn", 0]) if inp[0] == "error" else models.Outcome("c")
    else:
        oc0 = models.V(["c", "a", 0]) if inp[0] == "value" else models.E(inp[1], ["src", "a"]) if inp[0] == "error" else models.Outcome("c")
    oc = oc0
    for i, L in enumerate(case["layers"]):
        oc = m._map(L, names[i], oc, st, flat=(L["kind"] == "flat_map"))
    return oc, st["calls"]


def evaluate(case):
    prog, names = build_prog(case)
    s, w = progs.run_case({"prog": prog, "tape": case.get("tape", []), "clock": "exact", "max_steps": 60000, "max_vtime": 100})
    info = {"end": s.end_reason, "steps": s.steps}
    viols = []
    kinds = "+".join(sorted(set(l["kind"] for l in case["layers"])))

    def bad(sig, **d):
        viols.append({"signature": "C13:%s:%s:%s" % (sig, case["form"], kinds), "detail": d})

    if s.end_reason != "done":
        bad("run-ended-%s" % s.end_reason, stuck=getattr(s, "stuck_clients", None))
        return viols, info
    h = world.History(s, w)
    for o in h.oplist():
        if o["op"][0] in ("expr", "submit", "build") and o["result"][0] == "exc":
            bad("construction-raised:%s" % o["result"][1], result=o["result"])
            return viols, info
    exp, calls = expected(case, names)
    st = [o["result"] for o in h.oplist("state")][-1]
    st = st[1] if st[0] == "ok" else None
    info["exp"] = exp.key()
    info["got"] = st
    user_cancel = [o for o in h.oplist("cancel") if o["result"] == ["ok", True]]
    if st is None:
        bad("state-unavailable")
        return viols, info
    # call counts: at most once, only for its own case
    counts = {}
    for ev in s.events:
        if ev[3] == "call":
            counts[ev[4]["fn"]] = counts.get(ev[4]["fn"], 0) + 1
    for i, nm in enumerate(names):
        for suffix in (".fn", ".err"):
            got = counts.get(nm + suffix, 0)
            want = calls.get(nm + suffix, 0)
            if got > 1:
                bad("%s-called-%d-times" % (suffix[1:], got), layer=i)
            elif got != want and not user_cancel:
                bad("%s-called-%d-expected-%d" % (suffix[1:], got, want), layer=i, expected_outcome=exp.key())
    if user_cancel:
        if not (st["done"] and st["cancelled"]):
            bad("cancel-true-but-not-cancelled", state=st)
        return viols, info
    if exp.kind == "pending":
        if st["done"]:
            bad("done-but-inner-never-completed", state=st)
    elif exp.kind == "c":
        if not st["done"]:
            bad("pending-after-cancelled-input", state=st)
        elif not st["cancelled"] and "exc" not in st:
            bad("value-after-cancelled-input", state=st)
    elif not st["done"]:
        bad("pending-expected-%s" % exp.kind, expected=exp.key(), state=st)
    elif st["cancelled"]:
        bad("cancelled-expected-%s" % exp.kind, expected=exp.key())
    elif exp.kind == "v":
        if "value" not in st:
            bad("exception-expected-value", expected=exp.key(), state=st)
        elif st["value"] != exp.value:
            bad("wrong-value", expected=exp.key(), state=st)
    elif exp.kind == "e":
        if "exc" not in st:
            bad("value-expected-exception", expected=exp.key(), state=st)
        elif st["exc"][1] != exp.etype or (exp.tag is not None and st["exc"][2] != exp.tag):
            bad("wrong-exception", expected=exp.key(), state=st)
        else:
            if exp.tag is not None and st.get("exc_same") is not True:
                bad("exception-not-the-same-object", state=st)
            # an exception that came from the callable and was passed through (or re-raised): original raise site kept
            if exp.tag and exp.tag[0] == "c" and case["form"] == "exec" and "S.fn" not in (st.get("tb_fns") or []):
                bad("traceback-lost-original-raise-site", state=st)
            if exp.tag and exp.tag[0] == "src" and case["form"] == "f":
                # the source future's own exception, passed through: still carrying ITS traceback, nobody else's
                tbn = st.get("tb_names") or []
                if "verif_orig_raise_site" not in tbn or "verif_unrelated_site" in tbn:
                    bad("traceback-of-passed-through-exception-changed", tb=tbn)
    return viols, info


def nontrivial(case):
    return len(case["layers"]) >= 2 or case["input"][0] != "value" or any(l["kind"] == "flat_map" for l in case["layers"])


def account(ctx, case, viols, info, extra=()):
    cls = ["form:" + case["form"], "n:%d" % len(case["layers"]), "input:" + case["input"][0], "timing:" + case["timing"],
           "exp:%s" % (info.get("exp") or ["?"])[0]] + ["layer:" + l["kind"] for l in case["layers"]] + list(extra)
    ctx.case(case, nontrivial(case), cls, sample={"case": case, "expected": info.get("exp"), "got": info.get("got")})
    new = False
    for v in viols:
        if ctx.violation(v["signature"], case, v["detail"]):
            new = True
    return new


def inner_variants(layers):
    names = sorted(set(b[0][2] for l in layers for b in (l.get("fn"), l.get("err")) if b and b[0][0] == "fut"))
    if not names:
        return [{}]
    out = []
    for combo in itertools.product(INNER, repeat=len(names)):
        out.append(dict(zip(names, combo)))
    return out


def enum_cases(part, parts):
    idx = 0
    # (EF: a falsy exception instance; in_handler: the input is failed by a thread that is handling another exception)
    inputs = [["value"], ["error", "E1"], ["cancel"], ["error", "EF"], ["error", "E1", "in_handler"], ["error", "EQ"]]
    for form in ("exec", "f"):
        for kind, FN, ERR in (("map", MAP_FN, MAP_ERR), ("flat_map", FLAT_FN, FLAT_ERR)):
            for fn in FN:
                for err in ERR:
                    layers = [{"kind": kind, "fn": fn, "err": err}]
                    for inp in inputs:
                        for timing in ("done-before", "later-same-thread", "other-thread"):
                            if form == "exec" and timing == "done-before" and inp[0] == "cancel":
                                continue
                            if form == "exec" and len(inp) > 2:
                                continue
                            for inner in inner_variants(layers):
                                idx += 1
                                if idx % parts != part:
                                    continue
                                yield {"form": form, "layers": layers, "input": inp, "timing": timing, "inner": inner, "tape": []}
    # two-layer chains over a reduced set
    R_MAP = ([None, [["app", "m"]], [["raisearg", "E1"]]], [None, [["app", "h"]], [["reraise"]]])
    R_FLAT = ([None, [["futarg", "done"]], [["futarg", "err", "E2"]], [["nonfut"]]], [None, [["futarg", "done"]], [["reraise"]]])
    opts = []
    for kind, (FN, ERR) in (("map", R_MAP), ("flat_map", R_FLAT)):
        for fn in FN:
            for err in ERR:
                opts.append({"kind": kind, "fn": fn, "err": err})
    for form in ("exec", "f"):
        for l1 in opts:
            for l2 in opts:
                for inp in inputs[:2]:
                    idx += 1
                    if idx % parts != part:
                        continue
                    yield {"form": form, "layers": [l1, l2], "input": inp, "timing": "later-same-thread" if idx % 2 else "other-thread", "inner": {}, "tape": []}


def compose_cases():
    """Metamorphic: a chain of pure maps equals the single composed map."""
    out = []
    for n in (2, 3, 4):
        for form in ("exec", "f"):
            for inp in (["value"], ["error", "E1"]):
                for bad_at in [None] + list(range(n)):
                    fns = [[["app", "g%d" % i]] if i != bad_at else [["raisearg", "E3"]] for i in range(n)]
                    out.append({"form": form, "n": n, "fns": fns, "input": inp})
    return out


def eval_compose(c):
    chain = {"form": c["form"], "layers": [{"kind": "map", "fn": f, "err": None} for f in c["fns"]], "input": c["input"], "timing": "later-same-thread", "inner": {}, "tape": []}
    single = {"form": c["form"], "layers": [{"kind": "map", "fn": [["compose", [f[0] for f in c["fns"]]]], "err": None}], "input": c["input"], "timing": "later-same-thread", "inner": {}, "tape": []}
    outs = []
    for case in (chain, single):
        prog, names = build_prog(case)
        s, w = progs.run_case({"prog": prog, "tape": [], "clock": "exact", "max_vtime": 100})
        h = world.History(s, w)
        st = [o["result"] for o in h.oplist("state")][-1]
        st = st[1] if st[0] == "ok" else {}
        outs.append({"done": st.get("done"), "cancelled": st.get("cancelled"), "value": st.get("value"), "exc_type": (st.get("exc") or [None, None])[1]})
    viols = []
    if outs[0] != outs[1]:
        viols.append({"signature": "C13:chain-differs-from-composed-map:%s" % c["form"], "detail": {"chain": outs[0], "composed": outs[1]}})
    return viols, {"exp": ["compose"], "got": outs}


def shards(tier, seed):
    parts = 12
    specs = [{"mode": "enum", "part": i, "parts": parts} for i in range(parts)]
    specs.append({"mode": "compose"})
    for i in range(4):
        specs.append({"mode": "race", "part": i, "parts": 4})
    n = 250 if tier == "quick" else 4000
    for i in range(6):
        specs.append({"mode": "random", "seed": seed * 1000 + i, "n": n})
    return specs


def case_strategy():
    from hypothesis import strategies as st
    import gen

    def layer():
        return st.one_of(
            st.builds(lambda f, e: {"kind": "map", "fn": f, "err": e}, st.sampled_from(MAP_FN), st.sampled_from(MAP_ERR)),
            st.builds(lambda f, e: {"kind": "flat_map", "fn": f, "err": e}, st.sampled_from(FLAT_FN), st.sampled_from(FLAT_ERR)))

    @st.composite
    def cases(draw):
        layers = draw(st.lists(layer(), min_size=1, max_size=4))
        # each pending inner future may be handed out once only
        used = set()
        for l in layers:
            for k in ("fn", "err"):
                b = l.get(k)
                if b and b[0][0] == "fut":
                    if b[0][2] in used:
                        l[k] = [["futarg", "done"]]
                    used.add(b[0][2])
        inner = dict((n, draw(st.sampled_from(INNER))) for n in sorted(used))
        form = draw(st.sampled_from(["exec", "f"]))
        inp = draw(st.sampled_from([["value"], ["value"], ["error", "E1"], ["error", "E3"], ["cancel"], ["error", "EF"]]))
        timing = draw(st.sampled_from(["done-before", "later-same-thread", "other-thread", "other-thread"]))
        if form == "exec" and timing == "done-before" and inp[0] == "cancel":
            timing = "other-thread"
        c = {"form": form, "layers": layers, "input": inp, "timing": timing, "inner": inner, "tape": draw(gen.tapes(6))}
        if draw(st.integers(0, 3)) == 0:
            c["cancel_at"] = draw(st.sampled_from([0, 0.5, 1.0, 1.5]))
        return c

    return cases()


def race_cases():
    """Two-link chains whose input completes on one thread while another thread cancels the OUTPUT at the same instant
    (the links hand the result on / the cancel request back in opposite directions)."""
    FM = [{"kind": "flat_map", "fn": [["futarg", "done"]], "err": None}, {"kind": "flat_map", "fn": None, "err": None},
          {"kind": "map", "fn": [["app", "m"]], "err": None}]
    out = []
    for form in ("f", "exec"):
        for l1 in FM:
            for l2 in FM:
                for inp in (["value"], ["error", "E1"]):
                    out.append({"form": form, "layers": [l1, l2], "input": inp, "timing": "other-thread", "inner": {}, "cancel_at": 0.5, "tape": []})
    return out


def run_race(spec, ctx):
    k = 0
    for idx, base in enumerate(race_cases()):
        if idx % spec["parts"] != spec["part"]:
            continue
        viols, info = evaluate(base)
        account(ctx, base, viols, info, ["race"])
        n = info["steps"]
        for i in range(n + 1):
            for pick in (0, 1):
                case = dict(base, tape=[[i, pick]])
                viols, info = evaluate(case)
                account(ctx, case, viols, info, ["race"])
                k += 1
    ctx.exhaustive.append({"domain": "completion || cancel of the output of two-link map/flat_map chains, every single pre-emption (part %d/%d)" % (spec["part"], spec["parts"]),
                           "size": k, "complete": True})


def run_shard(spec, ctx):
    if spec["mode"] == "race":
        return run_race(spec, ctx)
    if spec["mode"] == "enum":
        k = 0
        for case in enum_cases(spec["part"], spec["parts"]):
            viols, info = evaluate(case)
            account(ctx, case, viols, info, ["enum"])
            k += 1
        ctx.exhaustive.append({"domain": "single map/flat_map layers: form x fn x error_fn x input x timing x inner completion; two-layer chains over a reduced behaviour set (part %d/%d)" % (spec["part"], spec["parts"]),
                               "size": k, "complete": True})
    elif spec["mode"] == "compose":
        cs = compose_cases()
        for c in cs:
            viols, info = eval_compose(c)
            ctx.case({"compose": c}, True, ["compose"], sample={"case": c, "observed": info["got"]})
            for v in viols:
                ctx.violation(v["signature"], {"compose": c}, v["detail"])
        ctx.exhaustive.append({"domain": "pure map chains n=2..4 vs the single composed map", "size": len(cs), "complete": True})
    else:
        progs.random_search(ctx, spec, case_strategy(), evaluate, account)


def replay(case):
    if "compose" in case:
        viols, info = eval_compose(case["compose"])
        return viols
    viols, info = evaluate(case)
    return viols
