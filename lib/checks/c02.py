"""C02 - every returned future obeys the concurrent.futures.Future protocol."""
import harness
import progs
import world

PROPERTY = "C02"
LEVEL = "exploration"
RULE = (
    "cases = (subject future from one of 30 producing entry points - every executor future class in each life stage, every f_* "
    "combinator output, combinators decided early (one input settles the output while a sibling is pending), nested combinators "
    "sharing an input, and futures born finished (f_return*) -, 1-3 actor threads issuing cancel / add_done_callback (also from "
    "inside callbacks; callbacks that cancel, read or wait() on their own future; optionally done-callbacks on the subject's inputs "
    "that cancel the subject, or on the subject that cancel its inputs) / result / exception / wait (all return_when modes) / "
    "as_completed / state samples, a completer thread ending the underlying work by value, exception or cancellation, tape, clock "
    "mode). Enumerated: every (subject x {cancel, add_cb, result, wait, as_completed} x completion kind) two-thread program with "
    "every single pre-emption placement; Hypothesis: longer histories with tapes. Oracle = invariants over the totally ordered "
    "history: cancel() bool / never raises / True => stays cancelled / False on normally finished; terminal observations never "
    "change; every callback exactly once and only when done; every waiter released (no TimeoutError) once the subject is terminal, "
    "and a wait() that starts after a done-callback of a future finished by value or exception ran reports it as done (after a "
    "cancellation a standard Future promises that only once the canceller has called set_running_or_notify_cancel()). Non-trivial = a "
    "cancel/add_cb/waiter overlapping the completing call (by sequence numbers) or parked before it. Distinct = digest of the case."
)
ASSUMPTIONS = [
    "a callback registered on an already-done library future is invoked directly and its own exception reaches the registrant (documented by the suite's test_broken_callback); recorded, not flagged",
    "waiter timeouts are 50 virtual seconds while every program finishes the underlying work within 5",
]

TAG = [["tag"]]
RETRY = {"kind": "retry", "policy": {"type": "exc", "max_attempts": 3, "sleep": 0.25, "exponent": 1.0, "base": ["E0"]}}


def _stack(base, layers):
    return ["build", "ex", {"base": {"kind": base}, "layers": layers}]


def subjects():
    """name -> dict(setup=[ops], complete={kind: [ops]}) ; the subject future is always called "S"."""
    S = {}

    def manual_layer(name, layers, extra_setup=(), job=0, scripts=None):
        scripts = scripts or {"value": TAG, "error": [["raise", "E2"]], "cancel": TAG}
        for kind in ("value", "error", "cancel"):
            S.setdefault(name, {"variants": {}})
            setup = [_stack("manual", layers)] + list(extra_setup) + [["submit", "ex", "S", {"script": scripts[kind]}]]
            comp = [["run", "ex", job]] if kind != "cancel" else [["complete", "ex.base.j%d" % job, "cancel"]]
            S[name]["variants"][kind] = {"setup": setup, "complete": comp}

    manual_layer("map", [{"kind": "map", "fn": [["app", "m"]], "err": None}])
    manual_layer("flat_map/stage1", [{"kind": "flat_map", "fn": [["futarg", "done"]], "err": None}])
    manual_layer("retry/inflight", [RETRY])
    manual_layer("poll/running", [{"kind": "poll", "interval": 0.5}])
    manual_layer("throttle/handed", [{"kind": "throttle", "count": 2}])
    manual_layer("timeout", [{"kind": "timeout", "t": 1000.0}])
    manual_layer("map+retry", [RETRY, {"kind": "map", "fn": None, "err": None}])
    manual_layer("throttle+timeout", [{"kind": "timeout", "t": 1000.0}, {"kind": "throttle", "count": 2}])
    # throttle, queued behind another job
    S["throttle/queued"] = {"variants": {}}
    for kind in ("value", "error", "cancel"):
        setup = [_stack("manual", [{"kind": "throttle", "count": 1}]), ["submit", "ex", "other", {"script": TAG}],
                 ["submit", "ex", "S", {"script": TAG if kind != "error" else [["raise", "E2"]]}]]
        comp = [["run", "ex", 0], ["sleep", 0.25]] + ([["run", "ex", 1]] if kind != "cancel" else [["complete", "ex.base.j1", "cancel"]])
        S["throttle/queued"]["variants"][kind] = {"setup": setup, "complete": comp}
    # retry, between attempts
    S["retry/between"] = {"variants": {}}
    for kind in ("value", "error", "cancel"):
        script = [["raise", "E0"], ["tag"]] if kind != "error" else [["raise", "E0"], ["raise", "E2"]]
        setup = [_stack("manual", [RETRY]), ["submit", "ex", "S", {"script": script}], ["run", "ex", 0]]
        comp = [["sleep", 0.5]] + ([["run", "ex", 1]] if kind != "cancel" else [["complete", "ex.base.j1", "cancel"]])
        S["retry/between"]["variants"][kind] = {"setup": setup, "complete": comp}
    # retry, while an attempt is failing and being re-queued (the completion the actors race with is the FIRST, failing attempt)
    S["retry/attempt-fails"] = {"variants": {}}
    for kind in ("value", "error", "cancel"):
        script = [["raise", "E0"], ["tag"]] if kind != "error" else [["raise", "E0"], ["raise", "E2"]]
        setup = [_stack("manual", [RETRY]), ["submit", "ex", "S", {"script": script}]]
        comp = [["run", "ex", 0], ["sleep", 0.5]] + ([["run", "ex", 1]] if kind != "cancel" else [["complete", "ex.base.j1", "cancel"]])
        S["retry/attempt-fails"]["variants"][kind] = {"setup": setup, "complete": comp}
    # flat_map, stage 2: waiting for the future the function returned
    S["flat_map/stage2"] = {"variants": {}}
    for kind in ("value", "error", "cancel"):
        setup = [_stack("sync", [{"kind": "flat_map", "fn": [["fut", "src", "inner"]], "err": None}]), ["submit", "ex", "S", {"script": TAG}]]
        S["flat_map/stage2"]["variants"][kind] = {"setup": setup, "complete": [["complete", "inner", kind]]}
    # poll, in the polling stage: resolved by the poll function on the 3rd sighting
    S["poll/polling"] = {"variants": {}}
    for kind in ("value", "error"):
        then = ["res"] if kind == "value" else ["exc", "E1"]
        setup = [_stack("sync", [{"kind": "poll", "interval": 0.5, "per_sub": {"S.fn": {"after": 3, "then": then}}}]),
                 ["submit", "ex", "S", {"script": TAG}]]
        S["poll/polling"]["variants"][kind] = {"setup": setup, "complete": [["sleep", 1.5]]}
    # poll, in the polling stage, with a cancel function that RESOLVES the future it is consulted about (through the descriptor
    # the poll function was handed) and then agrees to the cancel: the future is finished, so cancel() must say False
    S["poll/cancelfn-resolves"] = {"variants": {}}
    for kind in ("value",):
        setup = [_stack("sync", [{"kind": "poll", "interval": 0.5, "per_sub": {"S.fn": {"after": None}}, "keep_descriptors": True,
                                  "cancel": [["resolve_via_poll", "ex.L0.poll", ["ret", True]]]}]),
                 ["submit", "ex", "S", {"script": TAG}], ["sleep", 0.1]]
        S["poll/cancelfn-resolves"]["variants"][kind] = {"setup": setup, "complete": [["sleep", 1.5]]}
    # retry over a synchronous base: the callable, running on the retry thread inside the submission of its own attempt, calls
    # cancel() on its own future (second attempt, when it can know the future)
    S["retry/self-cancel"] = {"variants": {}}
    for kind in ("value", "error"):
        script = [["raise", "E0"], ["cancel", "S", ["tag"] if kind == "value" else ["raise", "E2"]]]
        S["retry/self-cancel"]["variants"][kind] = {"setup": [_stack("sync", [RETRY]), ["submit", "ex", "S", {"script": script}]], "complete": [["sleep", 0.75]]}
    # combinators over source futures
    combs = {
        "f_nocancel": (["f_nocancel", ["src", "a"]], 1), "f_proxy": (["f_proxy", ["src", "a"]], 1),
        "f_timeout": (["f_timeout", ["src", "a"], 1000.0], 1), "f_map": (["f_map", ["src", "a"], [["app", "m"]]], 1),
        "f_flat_map": (["f_flat_map", ["src", "a"], [["fut", "src", "b"]]], 2),
        "f_or": (["f_or", ["src", "a"], ["src", "b"]], 2), "f_and": (["f_and", ["src", "a"], ["src", "b"]], 2),
        "f_zip": (["f_zip", ["src", "a"], ["src", "b"]], 2), "f_sequence": (["f_sequence", ["src", "a"], ["src", "b"]], 2),
        "f_traverse": (["f_traverse", [["fut", "src", "a"], ["fut", "src", "b"]], [0, 1]], 2),
        "f_apply": (["f_apply", ["src", "a"], [["src", "b"]]], 2),
        "f_or(f_zip)": (["f_or", ["f_zip", ["src", "a"], ["src", "b"]], ["src", "b"]], 2),
    }
    for name, (e, n) in sorted(combs.items()):
        S[name] = {"variants": {}}
        for kind in ("value", "error", "cancel"):
            a_ok = ["complete", "a", "fn", [["echo"]]] if name == "f_apply" else ["complete", "a", "value", 0 if name == "f_or" else 1]
            b_ok = ["complete", "b", "value", 2]
            if kind == "value":
                comp = [a_ok] + ([b_ok] if n == 2 else [])
            elif kind == "error":
                comp = ([b_ok] if n == 2 and name != "f_or" else []) + [["complete", "a", "error", "E1"]] + ([["complete", "b", "error", "E2"]] if name == "f_or" else [])
            else:
                comp = [["complete", "a", "cancel"]] + ([["complete", "b", "cancel"]] if n == 2 else [])
            S[name]["variants"][kind] = {"setup": [["expr", "S", e]], "complete": comp}
    # combinators decided EARLY: the output is settled by one input while a sibling input is still pending
    early = {
        "f_or/early": (["f_or", ["src", "a"], ["src", "b"]], {"value": [["complete", "a", "value", 1]]}),
        "f_and/early": (["f_and", ["src", "a"], ["src", "b"]], {"value": [["complete", "a", "value", 0]], "error": [["complete", "a", "error", "E1"]]}),
        "f_zip/early": (["f_zip", ["src", "a"], ["src", "b"]], {"error": [["complete", "a", "error", "E1"]], "cancel": [["complete", "a", "cancel"]]}),
        "f_or(f_or,f_or)/shared-input": (["f_or", ["f_or", ["src", "a"], ["src", "b"]], ["f_or", ["src", "b"], ["src", "c"]]], {"value": [["complete", "a", "value", 1]]}),
        "f_and(f_zip,b)/shared-input": (["f_and", ["f_zip", ["src", "a"], ["src", "b"]], ["src", "b"]], {"error": [["complete", "a", "error", "E1"]]}),
    }
    for name, (e, variants) in sorted(early.items()):
        S[name] = {"variants": dict((kind, {"setup": [["expr", "S", e]], "complete": comp}) for kind, comp in variants.items())}
    # futures that are born finished (f_return / f_return_error / f_return_cancelled): the protocol holds for them too - in
    # particular a waiter handed one must be answered at once
    S["f_return*"] = {"variants": {
        "value": {"setup": [["expr", "S", ["done", "done", 7]]], "complete": []},
        "error": {"setup": [["expr", "S", ["done", "err", "E1"]]], "complete": []},
        "cancel": {"setup": [["expr", "S", ["done", "cancelled"]]], "complete": []}}}
    return S


WAIT_T = 50


def actor_op(kind, i):
    if kind == "cancel":
        return ["cancel", "S"]
    if kind == "add_cb":
        return ["add_cb", "S", "cb%d" % i]
    if kind == "add_cb_nested":
        return ["add_cb", "S", "cb%d" % i, ["add_cb", "cb%d.n" % i]]
    if kind == "add_cb_raising":
        return ["add_cb", "S", "cb%d" % i, ["raise", "E3"]]
    if kind == "add_cb_cancel":
        # a callback that uses the future it is attached to: cancel() (a no-op by then), result(0)
        return ["add_cb", "S", "cb%d" % i, ["op", ["cancel", "S"]]]
    if kind == "add_cb_result":
        return ["add_cb", "S", "cb%d" % i, ["op", ["result", "S", 0]]]
    if kind == "add_cb_wait":
        # a callback that hands its own (finished) future to wait(timeout=0): it must come back as done
        return ["add_cb", "S", "cb%d" % i, ["op", ["wait", ["S"], 0, "all"]]]
    if kind == "result":
        return ["result", "S", WAIT_T]
    if kind == "exception":
        return ["exception", "S", WAIT_T]
    if kind == "wait_all":
        return ["wait", ["S"], WAIT_T, "all"]
    if kind == "wait_first":
        return ["wait", ["S"], WAIT_T, "first"]
    if kind == "wait_exc":
        return ["wait", ["S"], WAIT_T, "exc"]
    if kind == "as_completed":
        return ["as_completed", ["S"], WAIT_T]
    if kind == "state":
        return ["state", "S"]
    raise ValueError(kind)


ACTOR_KINDS = ["cancel", "add_cb", "add_cb_nested", "add_cb_raising", "add_cb_cancel", "add_cb_result", "add_cb_wait", "result", "exception", "wait_all", "wait_first", "wait_exc",
               "as_completed", "state"]


def input_names(setup):
    """The futures the subject depends on and user code can reach: the source futures of an expression."""
    out = []
    for op in setup:
        if op[0] == "expr":
            txt = repr(op[2])
            out += [n for n in ("a", "b", "c") if "['src', '%s']" % n in txt]
    # (the futures inside an executor stack are not reachable by user code, so only expressions have inputs in this sense)
    return out


def make_prog(subject, variant, actors, order="completer-first", reenter=False):
    v = subjects()[subject]["variants"][variant]
    v = dict(v, setup=list(v["setup"]) + [["sleep", 0.01], ["add_cb", "S", "probe"]])
    if reenter:
        # user code re-enters the subject: a done-callback on each future the subject depends on calls S.cancel() - it runs
        # inside S.cancel() when that cancels the input, or inside the chain of calls that is completing S
        if reenter == "down":
            # ... or the other way round: a done-callback on the SUBJECT cancels every future the subject depends on (a clean-up
            # hook); it runs on whichever thread settles the subject, in the middle of the library's own completion code
            v["setup"] = v["setup"] + [["add_cb", "S", "down_" + n, ["op", ["cancel", n]]] for n in input_names(v["setup"])]
        else:
            v["setup"] = v["setup"] + [["add_cb", n, "re_" + n, ["op", ["cancel", "S"]]] for n in input_names(v["setup"])]
    threads = [list(v["complete"])]
    k = 0
    for acts in actors:
        ops = []
        for a in acts:
            ops.append(actor_op(a, k))
            k += 1
        threads.append(ops)
    if order == "actors-first":
        # the completer is the last thread to get going, so a single pre-emption can park an actor in
        # the middle of its call and let the completion run through
        threads = threads[1:] + threads[:1]
    return {"setup": v["setup"], "threads": threads, "settle": 3, "final": [["state", "S"], ["result", "S", 0], ["state", "S"]],
            "completer": "t%d" % (len(threads) - 1) if order == "actors-first" else "t0"}


def evaluate(case):
    prog = make_prog(case["subject"], case["variant"], case["actors"], case.get("order", "completer-first"), case.get("reenter", False))
    completer = prog.pop("completer")
    s, w = progs.run_case({"prog": prog, "tape": case.get("tape", []), "clock": case.get("clock", "exact"), "max_steps": 80000, "max_vtime": 500})
    info = {"end": s.end_reason, "steps": s.steps, "preemptions": s.preemptions}
    viols = []
    subj = case["subject"]

    def bad(sig, **d):
        viols.append({"signature": "C02:%s:%s" % (sig, subj), "detail": d})

    if s.end_reason != "done":
        if s.end_reason == "steps":
            info["inconclusive"] = True
        else:
            bad("run-ended-%s" % s.end_reason, stuck=getattr(s, "stuck_clients", None))
        return viols, info
    h = world.History(s, w)
    ops = h.oplist()
    joined_seq = [e[0] for e in s.events if e[3] == "joined"][0]
    # completion interval: the completer's ops
    comp_ops = [o for o in ops if o["thread"] == completer and o["call_seq"] > 0 and o["op"][0] in ("run", "complete", "sleep")]
    comp_call = min([o["call_seq"] for o in comp_ops] or [0])
    comp_ret = max([o["ret_seq"] or 0 for o in comp_ops] or [0])
    # (2) state samples
    samples = [(o["call_seq"], o["result"][1]) for o in ops if o["op"][0] == "state" and o["op"][1] == "S" and o["result"][0] == "ok"]
    # (samples taken by overlapping ops are unordered: only a sample whose op began after an earlier one returned is "later")
    ssorted = sorted([o for o in ops if o["op"][0] == "state" and o["op"][1] == "S" and o["result"][0] == "ok"], key=lambda o: o["ret_seq"])
    first_done = None
    for o in ssorted:
        st = o["result"][1]
        if st["done"]:
            key = (st["cancelled"], repr(st.get("value")), repr(st.get("exc")))
            if first_done is None:
                first_done = (o["ret_seq"], key, st)
            elif key != first_done[1]:
                bad("terminal-outcome-changed", first=first_done[2], later=st)
        elif first_done is not None and o["call_seq"] > first_done[0]:
            bad("done-then-not-done", first=first_done[2], later=st)
    final = samples[-1][1] if samples else None
    terminal = bool(final and final["done"])
    # (1) cancel()
    for o in ops:
        if o["op"][0] == "cancel" and o["op"][1] == "S":
            r = o["result"]
            if r[0] != "ok":
                bad("cancel-raised:%s" % (r[1] if len(r) > 1 else r[0]), result=r)
                continue
            if not isinstance(r[1], bool):
                bad("cancel-returned-non-bool", result=r)
            if r[1] is True:
                for seq, st in samples:
                    if seq > o["ret_seq"] and not (st["done"] and st["cancelled"]):
                        bad("cancel-true-but-not-cancelled", sample=st)
                        break
            if r[1] is False and final and final["done"] and not final["cancelled"]:
                pass
            if r[1] is True and final and final["done"] and not final["cancelled"]:
                bad("cancel-true-but-finished-normally", final=final)
            # finished normally before the cancel call => must be False
            if r[1] is True:
                for seq, st in samples:
                    if seq < o["call_seq"] and st["done"] and not st["cancelled"]:
                        bad("cancel-true-on-finished-future", sample=st)
                        break
    # exceptions escaping Future methods
    for o in ops:
        r = o["result"]
        if r and r[0] == "exc" and o["op"][0] in ("cancel", "add_cb", "result", "exception", "state", "wait", "as_completed"):
            if o["op"][0] == "add_cb" and r[1] in ("E3",):
                continue  # the callback's own exception, callback invoked directly on a done future
            if o["op"][0] in ("result",) and r[1] in ("E0", "E1", "E2", "E3"):
                continue  # the future's own outcome
            bad("exception-escaped-%s:%s" % (o["op"][0], r[1]), result=r)
    # a wait() that STARTS after some done-callback of the subject has run (the future is finished by then, whoever asks) must
    # report it as done - for completion by value or exception.  NOT for cancellation: a standard Future runs the callbacks
    # inside cancel(), in state CANCELLED, and wait() / as_completed() learn of it only at set_running_or_notify_cancel(), which
    # whoever cancelled calls afterwards; the f_and / f_or / f_zip outputs ARE standard Futures and behave so (the first version of
    # this clause covered cancellation too and the thorough tier rightly tripped over it on the unchanged tree).
    cb_seqs = [ev[0] for ev in s.events if ev[3] == "cb" and ev[4].get("fut") == "S" and not ev[4].get("cancelled")]
    if cb_seqs:
        for o in ops:
            if o["op"][0] == "wait" and o["op"][1] == ["S"] and o["call_seq"] > min(cb_seqs) and o["result"] and o["result"][0] == "ok" and o["result"][1]["not_done"]:
                bad("wait-after-done-callback-reports-not-done", op=o["op"], result=o["result"])
                break
    # (3) callbacks
    registered = {}
    for o in ops:
        if o["op"][0] == "add_cb" and o["op"][1] == "S" and o["result"] and o["result"][0] in ("ok", "exc"):
            registered[o["op"][2]] = o
            if len(o["op"]) > 3 and o["op"][3][0] == "add_cb":
                registered[o["op"][3][1]] = None
    runs = {}
    for ev in s.events:
        if ev[3] == "cb":
            runs.setdefault(ev[4]["cb"], []).append(ev)
            if not ev[4]["done"]:
                bad("callback-ran-before-done", cb=ev[4]["cb"])
    for name, o in registered.items():
        n = len(runs.get(name, []))
        if o is None:
            # nested: registered from inside another callback; must have run iff its parent ran
            parent = name[:-2]
            if len(runs.get(parent, [])) >= 1 and n != 1:
                bad("nested-callback-ran-%d-times" % n, cb=name)
            continue
        if terminal and n != 1:
            bad("callback-ran-%d-times" % n, cb=name, terminal=final)
        if not terminal and n != 0:
            bad("callback-ran-on-pending-future", cb=name)
    # (4) waiters: a waiter whose timeout expired later than the instant the subject became terminal was not released
    t_term = None
    for ev in s.events:
        if ev[3] == "cb" and ev[4]["cb"] == "probe":
            t_term = ev[1]
            break
    info["t_term"] = t_term
    if terminal and t_term is not None:
        for o in ops:
            if o["op"][0] in ("result", "exception", "wait", "as_completed") and o["op"][1] in ("S", ["S"]) and o["thread"] != completer and o["call_seq"] < joined_seq:
                r = o["result"]
                if o["ret_t"] is None or o["ret_t"] <= t_term + 0.01:
                    continue
                if r == ["timeout"]:
                    bad("waiter-not-released:%s" % o["op"][0] + ("/" + str(o["op"][3]) if o["op"][0] == "wait" else ""), op=o["op"], final=final, t_term=t_term, returned_at=o["ret_t"])
                elif o["op"][0] == "wait" and r[0] == "ok" and r[1]["not_done"]:
                    bad("waiter-not-released:wait/" + str(o["op"][3]), op=o["op"], result=r, final=final, t_term=t_term, returned_at=o["ret_t"])
                elif o["op"][0] == "as_completed" and r[0] == "ok" and r[1] != ["S"]:
                    bad("as_completed-wrong", result=r)
                if o["op"][0] == "result" and final["cancelled"] and r[0] not in ("cancelled",) and r != ["timeout"]:
                    # result() on a cancelled future must raise CancelledError - unless it returned before the cancel
                    if o["ret_seq"] and first_done and o["ret_seq"] > first_done[0]:
                        bad("result-on-cancelled-returned:%s" % r[0], result=r)
    # non-triviality: an actor op overlapping the completing ops, or a waiter parked before completion
    nt = False
    for o in ops:
        if o["thread"] != completer and o["op"][0] in ("cancel", "add_cb", "result", "exception", "wait", "as_completed") and o["call_seq"] > 0:
            if o["ret_seq"] is not None and o["call_seq"] < comp_ret and o["ret_seq"] > comp_call:
                nt = True
    info["nt"] = nt
    info["final"] = final
    return viols, info


def account(ctx, case, viols, info, extra=()):
    if info.get("inconclusive"):
        ctx.inconclusive += 1
    fin = info.get("final") or {}
    cls = ["subject:" + case["subject"], "variant:" + case["variant"], "end:" + info["end"],
           "final:%s" % ("cancelled" if fin.get("cancelled") else "done" if fin.get("done") else "pending")] + list(extra)
    ctx.case(case, info.get("nt", False), cls, sample={"case": case, "final_state": fin})
    new = False
    for v in viols:
        if ctx.violation(v["signature"], case, v["detail"]):
            new = True
    return new


def sweep_cases():
    out = []
    for subj, d in sorted(subjects().items()):
        for variant in sorted(d["variants"]):
            for a in ("cancel", "add_cb", "result", "wait_all", "as_completed"):
                out.append({"subject": subj, "variant": variant, "actors": [[a, "state"]]})
            for a in ("cancel", "add_cb"):
                out.append({"subject": subj, "variant": variant, "actors": [[a, "state"]], "order": "actors-first"})
            out.append({"subject": subj, "variant": variant, "actors": [["cancel"], ["add_cb", "wait_exc"]]})
            if input_names(d["variants"][variant]["setup"]):
                for a in ("cancel", "add_cb"):
                    out.append({"subject": subj, "variant": variant, "actors": [[a, "state"]], "reenter": True})
                out.append({"subject": subj, "variant": variant, "actors": [["add_cb", "state"]], "reenter": "down"})
    return out


def shards(tier, seed):
    cases = sweep_cases()
    nsh = 32
    specs = [{"mode": "sweep", "part": i, "parts": nsh, "picks": [0] if tier == "quick" else [0, 1], "double": tier == "thorough"} for i in range(nsh)]
    for i in range(12):
        specs.append({"mode": "sweep2", "part": i, "parts": 12, "double": tier == "thorough"})
    n = 250 if tier == "quick" else 4000
    for i in range(8):
        specs.append({"mode": "random", "seed": seed * 1000 + i, "n": n})
    return specs


def case_strategy():
    from hypothesis import strategies as st
    import gen
    subs = subjects()
    names = sorted(subs)

    @st.composite
    def cases(draw):
        subj = draw(st.sampled_from(names))
        variant = draw(st.sampled_from(sorted(subs[subj]["variants"])))
        nact = draw(st.integers(1, 3))
        actors = [draw(st.lists(st.sampled_from(ACTOR_KINDS), min_size=1, max_size=4)) for _ in range(nact)]
        return {"subject": subj, "variant": variant, "actors": actors, "tape": draw(gen.tapes(8)),
                "order": draw(st.sampled_from(["completer-first", "actors-first"])),
                "clock": draw(st.sampled_from(["exact", "exact", "preempt"])), "reenter": draw(st.sampled_from([False, False, False, True, "down"]))}

    return cases()


def run_shard(spec, ctx):
    if spec["mode"] == "sweep":
        cases = sweep_cases()
        total = 0
        for idx, base in enumerate(cases):
            if idx % spec["parts"] != spec["part"]:
                continue
            c0 = dict(base, tape=[], clock="exact")
            viols, info = evaluate(c0)
            account(ctx, c0, viols, info, ["sweep"])
            n = info["steps"]
            total += 1
            for i in range(n + 1):
                for p in spec["picks"]:
                    c = dict(base, tape=[[i, p]], clock="exact")
                    viols, info = evaluate(c)
                    account(ctx, c, viols, info, ["sweep"])
                    total += 1
            # two pre-emptions (completion started -> actor started -> completion finishes): only for the
            # add_done_callback-vs-completion pairs, second switch within a short window after the first
            if False:
                for i in range(n + 1):
                    for j in range(14 if spec.get("double") else 9):
                        c = dict(base, tape=[[i, 0], [j, 0]], clock="exact")
                        viols, info = evaluate(c)
                        account(ctx, c, viols, info, ["sweep2"])
                        total += 1
        ctx.exhaustive.append({"domain": "single pre-emption placements of (subject x actor-op x completion kind) programs, part %d/%d" % (spec["part"], spec["parts"]),
                               "size": total, "complete": True})
    elif spec["mode"] == "sweep2":
        # two pre-emptions (completion started -> actor started -> completion finishes) for the
        # add_done_callback-vs-completion pairs; second switch within a short window after the first
        cases = [c for c in sweep_cases() if c["actors"] == [["add_cb", "state"]] and c.get("order") is None
                 and (spec.get("double") or c["variant"] == "error")]
        total = 0
        for idx, base in enumerate(cases):
            if idx % spec["parts"] != spec["part"]:
                continue
            c0 = dict(base, tape=[], clock="exact")
            viols, info = evaluate(c0)
            n = info["steps"]
            for i in range(n + 1):
                for j in range(14 if spec.get("double") else 9):
                    c = dict(base, tape=[[i, 0], [j, 0]], clock="exact")
                    viols, info = evaluate(c)
                    account(ctx, c, viols, info, ["sweep2"])
                    total += 1
        ctx.exhaustive.append({"domain": "double pre-emption (second within a short window) of add_done_callback-vs-completion programs, part %d/%d" % (spec["part"], spec["parts"]),
                               "size": total, "complete": True})
    else:
        progs.random_search(ctx, spec, case_strategy(), evaluate, account)


def replay(case):
    viols, info = evaluate(case)
    return viols
