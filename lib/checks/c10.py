"""C10 - cancel-on-shutdown covers every future the executor ever accepted."""
import harness
import progs
import world

PROPERTY = "C10"
LEVEL = "exploration"
RULE = (
    "cases = (CancelOnShutdownExecutor, with a recording tap directly below it, over a manual base or over retry / poll / map / "
    "throttle layers on a manual or thread-pool base, that tap in a quarter of the cases coalescing requests (it answers every second submit() with the previous, still pending, Future object); 0-5 earlier futures that are pending, running (callable blocked on a gate) or "
    "done; 1-3 submitter threads calling submit() concurrently with the one thread calling shutdown(wait in {True, False}); done-callbacks "
    "that try to submit again; tape; both clock modes). Enumerated: submit || shutdown programs for each inner stack with every single "
    "pre-emption placement; completion || submit programs (no race with shutdown) in which every bytecode instruction of cancel_on_shutdown.py is a scheduling point. Oracle when shutdown() has returned: every future any submit() returned that was not done by then has had "
    "cancel() invoked exactly once by the shutting-down thread (futures that finished meanwhile: zero or one, never two); the wrapped "
    "executor saw exactly one shutdown(), after the last of those cancels; every racing submit() either raised RuntimeError('cannot "
    "schedule new futures after shutdown') or returned a covered future. Non-trivial = a submit whose call/return interval overlaps "
    "shutdown's. Distinct = digest of the case."
)
ASSUMPTIONS = ["a run that deadlocks is C04's finding; here it is counted as inconclusive", "only one thread calls shutdown()"]
MSG = "cannot schedule new futures after shutdown"

INNER = {
    "manual": ({"kind": "manual"}, []),
    "retry": ({"kind": "manual"}, [{"kind": "retry", "policy": {"type": "exc", "max_attempts": 2, "sleep": 0.25}}]),
    "poll": ({"kind": "manual"}, [{"kind": "poll", "interval": 0.5, "per_sub": {}}]),
    "map": ({"kind": "manual"}, [{"kind": "map", "fn": [["app", "m"]], "err": None}]),
    "throttle": ({"kind": "manual"}, [{"kind": "throttle", "count": 1}]),
    "pool": ({"kind": "pool", "workers": 1}, []),
    "pool+retry": ({"kind": "pool", "workers": 2}, [{"kind": "retry", "policy": {"type": "exc", "max_attempts": 2, "sleep": 0.25}}]),
}


def build(inner, coalesce=False):
    base, layers = INNER[inner]
    top = {"kind": "cos", "tap": True}
    if coalesce:
        top["coalesce"] = True  # the executor directly below answers every second submit() with the previous, still pending, future
    return ["build", "ex", {"base": base, "layers": list(layers) + [top]}]


def sub(name, script=None):
    return ["submit", "ex", name, {"script": script or [["tag"]]}]


def catalog():
    out = {}
    for inner in sorted(INNER):
        pool = inner.startswith("pool")
        gate = [["gate", "g", ["tag"]]]
        setup = [build(inner), sub("p0", gate if pool else None), sub("p1"), sub("p2"), ["add_cb", "p1", "cbp1", ["op", sub("n0")]], ["sleep", 0.01]]
        if not pool:
            setup += [["run", "ex", 0]]
        out["race/" + inner] = {"inner": inner, "prog": {
            "setup": setup,
            "threads": [[["shutdown", "ex", True, {"cancel_futures": True}], ["shutdown", "ex", True]], [sub("s0"), sub("s1")], [sub("s2")]],
            "settle": 1, "final": [["open", "g"], ["sleep", 1]]}}
        if inner in ("manual", "pool"):
            out["race-coalescing-delegate/" + inner] = {"inner": inner, "prog": {
                "setup": [build(inner, True)] + setup[1:],
                "threads": [[["shutdown", "ex", True]], [sub("s0"), sub("s1")], [sub("s2")]],
                "settle": 1, "final": [["open", "g"], ["sleep", 1]]}}
        out["race-nowait/" + inner] = {"inner": inner, "prog": {
            "setup": setup,
            "threads": [[sub("s0"), ["shutdown", "ex", False], sub("s3")], [sub("s1")], [sub("s2")]],
            "settle": 1, "final": [["open", "g"], ["sleep", 1]]}}
    # no race with shutdown at all: an earlier future completes (its done-callback updates the book-keeping on the completing
    # thread) while another thread submits; the sweep, much later, must still know the new future.  Every bytecode instruction
    # of cancel_on_shutdown.py is a scheduling point here, so an update written on one source line can be split.
    for inner in ("manual", "map"):
        out["completion-vs-submit/" + inner] = {"inner": inner, "instr_points": ["cancel_on_shutdown.py"], "prog": {
            "setup": [build(inner), sub("p0"), sub("p1"), ["sleep", 0.01]],
            "threads": [[["sleep", 0.5], ["shutdown", "ex", True]], [["run", "ex", 0]], [sub("s0"), sub("s1")], [["run", "ex", 1]]],
            "settle": 1, "final": [["sleep", 1]]}}
    return out


def evaluate(case):
    prog = case["prog"]
    s, w = progs.run_case(case)
    info = {"end": s.end_reason, "steps": s.steps, "preemptions": s.preemptions}
    viols = []

    def bad(sig, **d):
        viols.append({"signature": "C10:%s:%s" % (sig, case.get("inner", "?")), "detail": d})

    if s.end_reason != "done":
        info["inconclusive"] = True  # a hang is C04's business
        info["hang"] = True
        return viols, info
    h = world.History(s, w)
    ops = h.oplist()
    sds = [o for o in ops if o["op"][0] == "shutdown" and o["op"][1] == "ex"]
    if not sds or any(o["result"][0] != "ok" for o in sds):
        for o in sds:
            if o["result"][0] != "ok":
                bad("shutdown-raised:%s" % o["result"][1], result=o["result"])
        return viols, info
    sd = min(sds, key=lambda o: o["call_seq"])  # the first shutdown(); later ones (same thread) must be harmless

    # (cancels issued from INSIDE the wrapped executor's shutdown - a thread pool told cancel_futures=True cancels its queued work
    # items itself - are not the sweep's)
    inner_sd = [ev for ev in s.events if ev[3] == "tap_shutdown"]
    inner_from = dict((ev[2], ev[0]) for ev in inner_sd)

    def in_shutdown(seq, thread):
        if thread in inner_from and seq > inner_from[thread]:
            return False
        return any(o["thread"] == thread and o["call_seq"] < seq < o["ret_seq"] for o in sds)
    ids = dict((id(f), n) for n, f in w.futs.items())
    cancels = {}
    for ev in s.events:
        if ev[3] == "lcancel_call" and ev[4]["fid"] in ids:
            cancels.setdefault(ids[ev[4]["fid"]], []).append((ev[0], ev[2]))
        elif ev[3] == "fcancel_call" and ev[4]["fut"] in w.futs:
            cancels.setdefault(ev[4]["fut"], []).append((ev[0], ev[2]))
    # when did each returned future become done?  (callback recorded by the harness)
    done_seq = {}
    for ev in s.events:
        if ev[3] == "cb" and ev[4]["cb"].startswith("probe:"):
            done_seq.setdefault(ev[4]["fut"], ev[0])
        elif ev[3] == "tap_done" and ev[4]["fn"] and ev[4]["fn"].endswith(".fn"):
            # the tap sits directly below the cancel-on-shutdown layer: this is the returned future becoming done
            done_seq.setdefault(ev[4]["fn"][:-3], ev[0])
    nt = False
    last_cancel = 0
    submits = [o for o in ops if o["op"][0] == "submit" and o["op"][1] == "ex"]
    for o in submits:
        name = o["op"][2]
        r = o["result"]
        overl = o["call_seq"] < sd["ret_seq"] and (o["ret_seq"] or 10 ** 12) > sd["call_seq"]
        if overl:
            nt = True
        if r[0] == "exc":
            if not (r[1] == "RuntimeError" and r[2] == MSG):
                bad("submit-raised-other:%s" % r[1], result=r)
            elif o["ret_seq"] < sd["call_seq"]:
                bad("submit-refused-before-shutdown", op=o["op"][:3])
            continue
        if r != ["ok", "submitted"]:
            continue
        if o["call_seq"] > sd["ret_seq"]:
            bad("submit-accepted-after-shutdown-returned", op=o["op"][:3])
            continue
        # the future actually returned by cos is the delegate's future; the harness stored it under `name`
        # (futures are told apart by address: ignore a record older than this submit - an internal future that died before may have had the same one)
        mine = [c for c in cancels.get(name, []) if in_shutdown(c[0], c[1]) and c[0] > o["call_seq"]]
        fut_aliases = [n for n, f in w.futs.items() if f is w.futs[name]]
        for n in fut_aliases:
            if n != name:
                mine += [c for c in cancels.get(n, []) if in_shutdown(c[0], c[1]) and c[0] > o["call_seq"] and c not in mine]
        # (with a coalescing delegate several names stand for ONE future: it was done when the first of their recorded
        # done-callbacks ran - the others run later, one after the other, possibly after shutdown() has returned)
        ds = [done_seq[n] for n in fut_aliases if n in done_seq]
        d = min(ds) if ds else None
        done_before_return = d is not None and d < sd["ret_seq"]
        done_before_call = d is not None and d < sd["call_seq"]
        if len(mine) > 1:
            bad("cancelled-%d-times-by-sweep" % len(mine), fut=name)
        if not done_before_return and len(mine) == 0:
            bad("future-escaped-the-sweep", fut=name, submit_overlaps_shutdown=overl)
        if mine:
            last_cancel = max(last_cancel, max(c[0] for c in mine))
    taps = [ev for ev in s.events if ev[3] == "tap_shutdown"]
    if len(taps) != 1:
        bad("inner-shutdown-%d-times" % len(taps))
    else:
        if taps[0][0] < last_cancel:
            bad("inner-shutdown-before-last-cancel")
        if not (sd["call_seq"] < taps[0][0] < sd["ret_seq"]):
            bad("inner-shutdown-outside-shutdown-call")
        if taps[0][4]["wait"] != sd["op"][2]:
            bad("inner-shutdown-wait-argument", got=taps[0][4], want=sd["op"][2])
        want_kw = sd["op"][3] if len(sd["op"]) > 3 else {}
        if taps[0][4].get("kwargs") != want_kw:
            bad("inner-shutdown-keyword-arguments", got=taps[0][4].get("kwargs"), want=want_kw)
    info["nt"] = nt
    return viols, info


def account(ctx, case, viols, info, extra=()):
    cls = ["end:" + info["end"], "inner:" + case.get("inner", "?"), "preempt:%d" % min(info.get("preemptions", 0), 3), "nt:%s" % info.get("nt")] + list(extra)
    if info.get("hang"):
        cls.append("excluded:hang(C04)")
    ctx.case(case, bool(info.get("nt")), cls, sample={"case": case})
    new = False
    for v in viols:
        if ctx.violation(v["signature"], case, v["detail"]):
            new = True
    return new


def with_probes(prog):
    """Attach a harness callback to every future right after its submit so that its completion instant is known."""
    def fix(ops):
        out = []
        for op in ops:
            out.append(op)
            if op[0] == "submit":
                out.append(["add_cb", op[2], "probe:" + op[2]])
            elif op[0] == "add_cb" and len(op) > 3 and op[3][0] == "op" and op[3][1][0] == "submit":
                pass
        return out
    p = dict(prog)
    p["setup"] = fix(prog["setup"])
    p["threads"] = [fix(t) for t in prog["threads"]]
    return p


def case_strategy():
    from hypothesis import strategies as st
    import gen

    @st.composite
    def cases(draw):
        inner = draw(st.sampled_from(sorted(INNER)))
        pool = inner.startswith("pool")
        npre = draw(st.integers(0, 5))
        setup = [build(inner, draw(st.integers(0, 3)) == 0)]
        for i in range(npre):
            script = draw(st.sampled_from([[["tag"]], [["tag"]], [["raise", "E0"], ["tag"]], [["gate", "g", ["tag"]]]]))
            if not pool and script[0][0] == "gate":
                script = [["tag"]]
            setup.append(sub("p%d" % i, script))
            if draw(st.integers(0, 3)) == 0:
                setup.append(["add_cb", "p%d" % i, "cbp%d" % i, ["op", sub("n%d" % i)]])
        setup.append(["sleep", 0.01])
        if not pool:
            for i in range(npre):
                if draw(st.booleans()):
                    setup.append(["run", "ex", i])
        nsub = draw(st.integers(1, 3))
        threads = [[]]
        d = draw(st.sampled_from([0, 0, 0.25]))
        if d:
            threads[0].append(["sleep", d])
        kws = st.sampled_from([None, None, {"cancel_futures": True}, {"cancel_futures": False}])  # (legal keyword of Executor.shutdown)

        def sd():
            kw = draw(kws)
            return ["shutdown", "ex", draw(st.booleans())] + ([kw] if kw is not None else [])
        threads[0].append(sd())
        if draw(st.integers(0, 2)) == 0:
            threads[0].append(sd())
        k = 0
        for t in range(nsub):
            ops = []
            for _ in range(draw(st.integers(1, 3))):
                dd = draw(st.sampled_from([0, 0, 0, 0.25]))
                if dd:
                    ops.append(["sleep", dd])
                ops.append(sub("s%d" % k))
                k += 1
            threads.append(ops)
        if not pool and draw(st.booleans()):
            threads.append([["runall", "ex"]])
        prog = {"setup": setup, "threads": threads, "settle": 1, "final": [["open", "g"], ["sleep", 1]]}
        return {"prog": with_probes(prog), "inner": inner, "tape": draw(gen.tapes(8)),
                "clock": draw(st.sampled_from(["exact", "exact", "preempt"])), "max_vtime": 200,
                "hsalt": draw(st.sampled_from([0, 0, 1, 2, 3]))}  # order in which the sweep visits its set of futures

    return cases()


def shards(tier, seed):
    cat = sorted(catalog())
    specs = []
    for i in range(0, len(cat), 2):
        specs.append({"mode": "sweep", "entries": cat[i:i + 2], "double": tier == "thorough"})
    n = 300 if tier == "quick" else 5000
    for i in range(9):
        specs.append({"mode": "random", "seed": seed * 1000 + i, "n": n})
    return specs


def run_shard(spec, ctx):
    if spec["mode"] == "sweep":
        cat = catalog()
        for name in spec["entries"]:
            ent = cat[name]
            extra = {"inner": ent["inner"], "entry": name, "max_vtime": 200}
            if ent.get("instr_points"):
                extra["instr_points"] = ent["instr_points"]
            progs.sweep(ctx, with_probes(ent["prog"]), name, evaluate, account, double=spec.get("double"), extra=extra)
    else:
        progs.random_search(ctx, spec, case_strategy(), evaluate, account)


def replay(case):
    viols, info = evaluate(case)
    return viols
