"""C06 - cancel: True means the work never starts; it stops retries; it propagates."""
import harness
import progs
import world

PROPERTY = "C06"
LEVEL = "exploration"
RULE = (
    "cases = (stack of 1-4 layers over a manual base with a recording tap below every layer, or a combinator expression over "
    "recording source futures; 1-3 submissions whose callables may block on a gate so that 'running' is a program state; 1-3 threads "
    "issuing cancel() - possibly repeatedly - at generated virtual times; a runner thread that runs/completes the manual jobs; tape; "
    "clock mode). Enumerated: catalogue programs (cancel || hand-over, cancel || completion, cancel between retries, cancel at the "
    "retry instant, double cancel, cancel while running, cancel while a slow retry policy judges a successful attempt, cancel through "
    "every layer and combinator) with every single pre-emption placement. Oracle over sequence numbers: True => cancelled ever after, "
    "no invocation and no delegate submit after the return; running => False and normal completion; retry => no delegate submit after "
    "ANY cancel() returned; the request reaches the innermost pending work except below f_nocancel. Non-trivial = a cancel whose "
    "call/return interval overlaps a hand-over, a completion or a poll, or a cancel between retries. Distinct = digest of the case."
)
ASSUMPTIONS = [
    "a start that overlaps the cancel() call itself is legal (then cancel() may return either value)",
    "poll cancel functions that veto are exercised by C08, not here",
]

RETRY = {"kind": "retry", "tap": True, "policy": {"type": "exc", "max_attempts": 4, "sleep": 0.5, "exponent": 1.0, "base": ["E0"]}}
MAP = {"kind": "map", "tap": True, "fn": [["app", "m"]], "err": None}
FLAT = {"kind": "flat_map", "tap": True, "fn": [["futarg", "done"]], "err": None}
POLL = {"kind": "poll", "tap": True, "interval": 0.5}
THR1 = {"kind": "throttle", "tap": True, "count": 1}
THR2 = {"kind": "throttle", "tap": True, "count": 2}
TMO = {"kind": "timeout", "tap": True, "t": 5000.0}
COS = {"kind": "cos", "tap": True}
LAYERS = {"retry": RETRY, "map": MAP, "flat_map": FLAT, "poll": POLL, "throttle1": THR1, "throttle2": THR2, "timeout": TMO, "cos": COS}


def sub(name, script=None):
    return ["submit", "ex", name, {"script": script or [["tag"]]}]


def build(layers):
    return ["build", "ex", {"base": {"kind": "manual"}, "layers": layers}]


def catalog():
    out = {}
    combos = [["retry"], ["map"], ["flat_map"], ["poll"], ["throttle1"], ["throttle2"], ["timeout"], ["cos"],
              ["retry", "map"], ["map", "retry"], ["retry", "throttle1"], ["throttle1", "retry"], ["poll", "retry"], ["retry", "timeout"],
              ["timeout", "retry"], ["flat_map", "retry", "cos"], ["retry", "retry"], ["throttle2", "poll", "map"],
              ["retry", "poll"], ["retry", "flat_map"], ["retry", "map", "poll"], ["retry", "throttle2"]]
    for names in combos:
        layers = [LAYERS[n] for n in names]
        key = "+".join(names)
        # cancel || hand-over to the delegate (right after submit)
        out["handover/" + key] = {
            "setup": [build(layers)],
            "threads": [[sub("S", [["raise", "E0"], ["tag"]]), ["sleep", 1.0], ["runall", "ex"], ["sleep", 1.0], ["runall", "ex"]],
                        [["cancel", "S"], ["state", "S"]]],
            "settle": 3, "final": [["runall", "ex"], ["sleep", 2], ["state", "S"]]}
        # cancel || completion of the job
        out["completion/" + key] = {
            "setup": [build(layers), sub("S", [["raise", "E0"], ["tag"]]), ["sleep", 0.01]],
            "threads": [[["runall", "ex"], ["sleep", 1.0], ["runall", "ex"]], [["cancel", "S"], ["state", "S"], ["cancel", "S"]]],
            "settle": 3, "final": [["runall", "ex"], ["sleep", 2], ["state", "S"]]}
        # cancel while the callable is running (blocked on a gate)
        out["running/" + key] = {
            "setup": [build(layers), sub("S", [["gate", "g", ["tag"]]]), ["sleep", 0.01]],
            "threads": [[["runall", "ex"]], [["sleep", 0.5], ["cancel", "S"], ["state", "S"], ["open", "g"]]],
            "settle": 3, "final": [["runall", "ex"], ["sleep", 2], ["state", "S"]]}
        if "retry" in names:
            # cancel between retries, and exactly at the retry instant; double cancel
            for at in (0.25, 0.5):
                out["between@%s/%s" % (at, key)] = {
                    "setup": [build(layers), sub("S", [["raise", "E0"], ["raise", "E0"], ["tag"]]), ["sleep", 0.01], ["runall", "ex"]],
                    "threads": [[["sleep", at], ["cancel", "S"], ["state", "S"]], [["sleep", at], ["cancel", "S"]],
                                [["sleep", 0.75], ["runall", "ex"], ["sleep", 1.0], ["runall", "ex"]]],
                    "settle": 3, "final": [["runall", "ex"], ["sleep", 2], ["runall", "ex"], ["state", "S"]]}
            # failed in-flight cancel (callable running) must still stop retries
            out["running-then-fail/" + key] = {
                "setup": [build(layers), sub("S", [["gate", "g", ["raise", "E0"]], ["tag"]]), ["sleep", 0.01]],
                "threads": [[["runall", "ex"], ["sleep", 2.0], ["runall", "ex"]], [["sleep", 0.5], ["cancel", "S"], ["open", "g"]]],
                "settle": 3, "final": [["runall", "ex"], ["sleep", 2], ["runall", "ex"], ["state", "S"]]}
            # ... also when the callable fails *while* cancel() is in progress
            out["running-fail-race/" + key] = {
                "setup": [build(layers), sub("S", [["gate", "g", ["raise", "E0"]], ["tag"]]), ["sleep", 0.01]],
                "threads": [[["runall", "ex"], ["sleep", 2.0], ["runall", "ex"]], [["sleep", 0.5], ["cancel", "S"]], [["sleep", 0.5], ["open", "g"]]],
                "settle": 3, "final": [["runall", "ex"], ["sleep", 2], ["runall", "ex"], ["state", "S"]]}
        if "throttle1" in names:
            out["queued/" + key] = {
                "setup": [build(layers), sub("other"), sub("S"), ["sleep", 0.01]],
                "threads": [[["runall", "ex"], ["sleep", 0.5], ["runall", "ex"]], [["cancel", "S"], ["state", "S"]]],
                "settle": 3, "final": [["runall", "ex"], ["sleep", 2], ["runall", "ex"], ["state", "S"]]}
    # a cancel that the layer below refuses the first time and accepts the second time (a poll cancel function that vetoes once):
    # EVERY cancel() is forwarded, not only the first
    vp = dict(POLL, per_sub={"S.fn": {"after": None}}, cancel=[["ret", False], ["ret", True]])
    for names, layers in (("poll+retry", [vp, RETRY]), ("poll+retry+map", [vp, RETRY, MAP]), ("poll+map", [vp, MAP])):
        out["refused-then-accepted/" + names] = {
            "expect_cancelfn_calls": 2,
            "setup": [build(layers), sub("S"), ["sleep", 0.01], ["runall", "ex"], ["sleep", 0.25]],
            "threads": [[["cancel", "S"], ["sleep", 0.25], ["cancel", "S"], ["state", "S"]]],
            "settle": 2, "final": [["state", "S"]]}
    # retry on RESULTS with a policy that takes time to decide: the cancel arrives while should_retry() is looking at a
    # SUCCESSFUL attempt; it is refused, stops further retries, and the future keeps that attempt's value
    slowpol = {"kind": "retry", "tap": True, "policy": {"type": "script", "should": [["slow", 0.5, True], False], "sleep": [0.25]}}
    out["retry/cancel-while-slow-policy-judges-a-successful-attempt"] = {
        "own_value": True,
        "setup": [build([slowpol]), sub("S", [["tag"], ["tag"]]), ["sleep", 0.01]],
        "threads": [[["sleep", 0.1], ["run", "ex", 0]], [["sleep", 0.3], ["cancel", "S"], ["state", "S"]]],
        "settle": 3, "final": [["runall", "ex"], ["sleep", 1.0], ["state", "S"]]}
    combs = {
        "f_zip": ["f_zip", ["src", "a"], ["src", "b"], ["src", "c"]], "f_or": ["f_or", ["src", "a"], ["src", "b"], ["src", "c"]],
        "f_and": ["f_and", ["src", "a"], ["src", "b"], ["src", "c"]], "f_sequence": ["f_sequence", ["src", "a"], ["src", "b"], ["src", "c"]],
        "f_map": ["f_map", ["src", "b"], [["app", "m"]]], "f_timeout": ["f_timeout", ["src", "b"], 1000.0], "f_proxy": ["f_proxy", ["src", "b"]],
        "f_flat_map/stage1": ["f_flat_map", ["src", "b"], [["fut", "src", "c"]]],
        "f_flat_map/stage2": ["f_flat_map", ["src", "a"], [["fut", "src", "b"]]],
        "f_apply": ["f_apply", ["src", "a"], [["src", "b"], ["src", "c"]]],
        "f_zip(nocancel)": ["f_zip", ["src", "a"], ["f_nocancel", ["src", "b"]], ["src", "c"]],
        "f_or(nocancel)": ["f_or", ["f_nocancel", ["src", "b"]], ["src", "c"]],
        "f_nocancel": ["f_nocancel", ["src", "b"]],
        "f_map(f_zip)": ["f_map", ["f_zip", ["src", "b"], ["src", "c"]], [["app", "m"]]],
    }
    for cname, e in sorted(combs.items()):
        afirst = ["complete", "a", "fn", [["echo"]]] if cname == "f_apply" else ["complete", "a", "value", 0]
        out["comb/" + cname] = {
            "comb": True,
            "setup": [["expr", "S", e]],
            "threads": [[afirst, ["sleep", 0.5], ["complete", "c", "value", 0]], [["cancel", "S"], ["state", "S"]]],
            "settle": 2, "final": [["state", "S"], ["state", "a"], ["state", "b"], ["state", "c"]]}
    return out


def evaluate(case):
    prog = case["prog"]
    s, w = progs.run_case(case)
    info = {"end": s.end_reason, "steps": s.steps, "preemptions": s.preemptions}
    viols = []
    key = case.get("sigkey") or case.get("entry", "random")

    def bad(sig, **d):
        viols.append({"signature": "C06:%s:%s" % (sig, key), "detail": d})

    if s.end_reason != "done":
        if s.end_reason == "steps":
            info["inconclusive"] = True
        else:
            bad("run-ended-%s" % s.end_reason, stuck=getattr(s, "stuck_clients", None))
        return viols, info
    h = world.History(s, w)
    ops = h.oplist()
    stack = None
    for op in prog["setup"]:
        if op[0] == "build":
            stack = op[2]
    layers = stack["layers"] if stack else []
    retry_taps = ["ex.tap%d" % i for i, l in enumerate(layers) if l["kind"] == "retry"]
    outer_forwarding = True
    # events per submission callable
    calls, rets, tapsub, basesub = {}, {}, {}, {}
    jobs = {}
    for ev in s.events:
        k, d = ev[3], ev[4]
        if k == "call":
            calls.setdefault(d["fn"], []).append(ev[0])
        elif k in ("ret", "raise"):
            rets.setdefault(d["fn"], []).append(ev[0])
        elif k == "tap_submit":
            tapsub.setdefault(d["fn"], []).append((ev[0], d["tap"]))
        elif k == "base_submit":
            basesub.setdefault(d["fn"], []).append((ev[0], d["fut"], d["job"]))
            jobs[d["fut"]] = {"submit": ev[0], "start": None, "cancel_calls": [], "completed": None}
        elif k == "job_start":
            jobs["%s.j%d" % (d["ex"], d["job"])]["start"] = ev[0]
        elif k == "job_skipped":
            jobs["%s.j%d" % (d["ex"], d["job"])]["start"] = None
        elif k == "fcancel_call":
            jobs.setdefault(d["fut"], {"submit": 0, "start": None, "cancel_calls": [], "completed": None})["cancel_calls"].append(ev[0])
        elif k == "fcancel_ret" and d["result"]:
            j = jobs.setdefault(d["fut"], {"submit": 0, "start": None, "cancel_calls": [], "completed": None})
            if j.get("cancelled") is None:
                j["cancelled"] = ev[0]
    completes = {}
    for o in ops:
        if o["op"][0] == "complete":
            completes.setdefault(o["op"][1], []).append(o)
    samples = {}
    for o in ops:
        if o["op"][0] == "state" and o["result"][0] == "ok":
            samples.setdefault(o["op"][1], []).append((o["call_seq"], o["result"][1]))
    nt = False
    for o in ops:
        if o["op"][0] != "cancel":
            continue
        f = o["op"][1]
        r = o["result"]
        if r == ["nofuture"]:
            continue
        if r[0] != "ok":
            bad("cancel-raised:%s" % r[1], result=r)
            continue
        res = r[1]
        fn = f + ".fn"
        sc, sr = o["call_seq"], o["ret_seq"]
        # overlap with hand-over / completion => non-trivial
        for seq in calls.get(fn, []) + [x[0] for x in tapsub.get(fn, [])] + [x[0] for x in basesub.get(fn, [])] + rets.get(fn, []):
            if sc < seq < sr:
                nt = True
        if len(calls.get(fn, [])) >= 1 and res is True:
            nt = True  # a cancel after at least one attempt: between retries
        if res is True:
            later = [x for x in samples.get(f, []) if x[0] > sr]
            for seq, st in later:
                if not (st["done"] and st["cancelled"]):
                    bad("true-but-not-cancelled", fut=f, sample=st)
                    break
            late_calls = [x for x in calls.get(fn, []) if x > sr]
            if late_calls:
                bad("callable-started-after-cancel-true", fut=f, cancel_ret=sr, starts=late_calls)
            late_sub = [x for x in tapsub.get(fn, []) if x[0] > sr] + [x for x in basesub.get(fn, []) if x[0] > sr]
            if late_sub:
                bad("delegate-submit-after-cancel-true", fut=f, cancel_ret=sr, submits=late_sub[:3])
        # running across the whole cancel call => False and normal completion
        cl, rt = calls.get(fn, []), rets.get(fn, [])
        for i, c in enumerate(cl):
            end = rt[i] if i < len(rt) else 10 ** 12
            if c < sc and end > sr:
                if res is not False:
                    bad("cancel-true-while-running", fut=f)
                else:
                    fin = samples.get(f, [])
                    if fin and not (fin[-1][1]["done"] and not fin[-1][1]["cancelled"]) and not case.get("comb"):
                        # it may legitimately be cancelled later by another cancel() op once not running
                        others = [p for p in ops if p["op"][0] == "cancel" and p["op"][1] == f and p["result"] == ["ok", True]]
                        if not others:
                            bad("running-future-did-not-complete-normally", fut=f, final=fin[-1][1])
        # retry: no delegate submit after ANY cancel() returned
        if retry_taps and not case.get("comb"):
            top_retry = layers[-1]["kind"] == "retry" or all(l["kind"] in ("map", "flat_map", "timeout", "cos", "poll") for l in layers[max(i for i, l in enumerate(layers) if l["kind"] == "retry") + 1:])
            if top_retry:
                tap = retry_taps[-1]
                late = [x for x in tapsub.get(fn, []) if x[1] == tap and x[0] > sr]
                if late:
                    bad("retry-submitted-after-cancel-returned-%s" % res, fut=f, cancel_ret=sr, submits=late[:3])
        # propagation to the innermost pending work (executor stacks)
        if not case.get("comb"):
            for (seq, jname, jn) in basesub.get(fn, []):
                j = jobs[jname]
                externally = completes.get(jname)
                t_sub = [e[1] for e in s.events if e[0] == seq][0]
                settled = case.get("clock", "exact") == "exact" and t_sub < o["call_t"] - 1e-3
                if seq < sc and settled and j["start"] is None and not externally:
                    # a base job for this future was handed over at an earlier virtual instant (so the
                    # hand-over is complete) and stayed pending during the whole cancel call:
                    # somebody must have asked it to cancel by the time this cancel() returns
                    got = [x for x in j["cancel_calls"] if x < sr]
                    if not got:
                        bad("cancel-not-forwarded-to-pending-delegate", fut=f, job=jname, result=res)
                    elif res is not True:
                        bad("cancel-false-although-delegate-cancelled", fut=f, job=jname)
    if case.get("own_value") or prog.get("own_value"):
        # no layer above the retry executor transforms values: a future that ends with a value carries one its callable returned
        own = [ev[4]["value"] for ev in s.events if ev[3] == "ret" and ev[4]["fn"] == "S.fn"]
        fin = samples.get("S", [])
        if fin and fin[-1][1]["done"] and not fin[-1][1]["cancelled"] and "exc" not in fin[-1][1] and fin[-1][1].get("value") not in own:
            bad("value-is-not-one-the-callable-returned", final=fin[-1][1], returned=own)
    # combinators: fan-out
    if case.get("comb"):
        entry = case.get("entry", "")
        for o in ops:
            if o["op"][0] != "cancel" or o["op"][1] != "S" or o["result"][0] != "ok":
                continue
            sc, sr, res = o["call_seq"], o["ret_seq"], o["result"][1]
            shielded = {"f_zip(nocancel)": ["b"], "f_or(nocancel)": ["b"], "f_nocancel": ["b"]}.get(entry.split("/", 1)[-1], [])
            used = {"f_map": ["b"], "f_timeout": ["b"], "f_proxy": ["b"], "f_nocancel": ["b"], "f_flat_map/stage1": ["b"], "f_flat_map/stage2": ["a", "b"],
                    "f_or(nocancel)": ["b", "c"], "f_map(f_zip)": ["b", "c"]}.get(entry.split("/", 1)[-1], ["a", "b", "c"])
            pend = []
            for name in used:
                comp = [c for c in completes.get(name, []) if c["call_seq"] < sr]
                if not comp:
                    pend.append(name)
            got = dict((name, [x for x in jobs.get(name, {"cancel_calls": []})["cancel_calls"] if x > sc]) for name in used)
            if entry.endswith("f_nocancel"):
                if res is not False:
                    bad("nocancel-cancel-returned-%s" % res)
            for name in shielded:
                if jobs.get(name, {"cancel_calls": []})["cancel_calls"]:
                    bad("cancel-reached-shielded-input", input=name)
            if res is True:
                need = [n for n in pend if n not in shielded]
                if entry.split("/", 1)[-1] in ("f_apply", "f_flat_map/stage1", "f_flat_map/stage2"):
                    if need and not any(got[n] for n in used):
                        bad("cancel-not-forwarded-to-any-pending-input", pending=need)
                else:
                    for n in need:
                        if not got[n]:
                            bad("cancel-not-forwarded-to-pending-input", input=n)
            for seq in [c["call_seq"] for name in used for c in completes.get(name, [])]:
                if sc < seq < sr:
                    nt = True
    # every cancel() of a future whose pending work sits behind a poll cancel function reaches that function
    want = case["prog"].get("expect_cancelfn_calls")
    if want is not None:
        n_cf = len([e for e in s.events if e[3] == "call" and e[4]["fn"].endswith(".cancelfn")])
        n_cancel = len([o for o in ops if o["op"][0] == "cancel" and o["op"][1] == "S"])
        fin = [o["result"][1] for o in ops if o["op"][0] == "state" and o["op"][1] == "S" and o["result"][0] == "ok"]
        if n_cancel == want and n_cf != want:
            bad("cancel-not-forwarded-every-time", cancel_calls=n_cancel, cancel_function_consulted=n_cf)
        elif n_cancel == want and fin and not (fin[-1]["done"] and fin[-1]["cancelled"]):
            bad("second-cancel-accepted-below-but-future-not-cancelled", state=fin[-1])
        nt = True
    info["nt"] = nt
    return viols, info


def account(ctx, case, viols, info, extra=()):
    if info.get("inconclusive"):
        ctx.inconclusive += 1
    cls = ["end:" + info["end"], "preempt:%d" % min(info.get("preemptions", 0), 3), "nt:%s" % info.get("nt")] + list(extra)
    ctx.case(case, bool(info.get("nt")), cls, sample={"case": case, "steps": info.get("steps")})
    new = False
    for v in viols:
        if ctx.violation(v["signature"], case, v["detail"]):
            new = True
    return new


def shards(tier, seed):
    cat = sorted(catalog())
    specs = []
    per = 4 if tier == "quick" else 2
    for i in range(0, len(cat), per):
        specs.append({"mode": "sweep", "entries": cat[i:i + per], "double": tier == "thorough", "picks": [0, 1]})
    n = 250 if tier == "quick" else 4000
    for i in range(8):
        specs.append({"mode": "random", "seed": seed * 1000 + i, "n": n})
    return specs


def case_strategy():
    from hypothesis import strategies as st
    import gen

    @st.composite
    def cases(draw):
        names = draw(st.lists(st.sampled_from(sorted(LAYERS)), min_size=1, max_size=4))
        layers = [LAYERS[n] for n in names]
        nsub = draw(st.integers(1, 3))
        scripts = st.sampled_from([[["tag"]], [["raise", "E0"], ["tag"]], [["raise", "E0"], ["raise", "E0"], ["tag"]],
                                   [["gate", "g", ["tag"]]], [["gate", "g", ["raise", "E0"]], ["tag"]], [["raise", "E2"]]])
        setup = [build(layers)]
        fnames = ["S%d" % i for i in range(nsub)]
        submit_thread = [sub(f, draw(scripts)) for f in fnames]
        ncancel = draw(st.integers(1, 2))
        threads = [submit_thread]
        for t in range(ncancel):
            ops = []
            for _ in range(draw(st.integers(1, 3))):
                d = draw(st.sampled_from([0, 0, 0.25, 0.5, 0.75]))
                if d:
                    ops.append(["sleep", d])
                f = draw(st.sampled_from(fnames))
                ops.append(["cancel", f])
                ops.append(["state", f])
            threads.append(ops)
        runner = []
        for _ in range(draw(st.integers(1, 4))):
            d = draw(st.sampled_from([0, 0.25, 0.5, 1.0]))
            if d:
                runner.append(["sleep", d])
            runner.append(["runall", "ex"])
        threads.append(runner)
        threads.append([["sleep", draw(st.sampled_from([0.25, 0.5, 0.75, 1.25]))], ["open", "g"]])
        prog = {"setup": setup, "threads": threads, "settle": 3,
                "final": [["open", "g"], ["runall", "ex"], ["sleep", 2], ["runall", "ex"], ["sleep", 2], ["runall", "ex"]] + [["state", f] for f in fnames]}
        return {"prog": prog, "tape": draw(gen.tapes(8)), "clock": draw(st.sampled_from(["exact", "exact", "preempt"])),
                "entry": "random", "sigkey": "random:" + "+".join(sorted(set(names)))}

    return cases()


def run_shard(spec, ctx):
    if spec["mode"] == "sweep":
        cat = catalog()
        for name in spec["entries"]:
            ent = dict(cat[name])
            comb = ent.pop("comb", False)
            extra = {"entry": name, "comb": comb, "max_vtime": 300}
            progs.sweep(ctx, ent, name, evaluate, account, double=spec.get("double"), picks=tuple(spec.get("picks", (0, 1))), extra=extra)
    else:
        progs.random_search(ctx, spec, case_strategy(), evaluate, account)


def replay(case):
    viols, info = evaluate(case)
    return viols
