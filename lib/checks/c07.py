"""C07 - throttle: never more than count in flight, FIFO hand-over, no idle capacity, blocking mode."""
import harness
import progs
import world

PROPERTY = "C07"
LEVEL = "exploration"
RULE = (
    "cases = (throttle(count, block) over a manual base - completions are program steps in any order - or a thread pool, with a "
    "recording tap between throttle and base; count in {0,1,2,3,None, scripted callable returning ints/None/raising}; 1-3 submitter "
    "threads; a completer thread running/cancelling jobs in generated order with generated sleeps; cancels of queued futures; tape; exact "
    "clock). Enumerated: catalogue programs (completion || hand-over loop, submit || idle loop, queued-cancel || pop, blocking submit || "
    "pop) with every single pre-emption placement. Oracle: a FIFO queue model replayed over the event history - at every hand-over the "
    "number handed to the delegate and not yet done is <= the bound in force; delegate submissions occur in submit order; with a static "
    "count each hand-over happens at the virtual instant the model enables it (never +2 s/+30 s), and nothing stays queued while capacity "
    "is free; with block=True submit() returns for every count value and is parked only while the model queue holds >= count entries. "
    "Plus a Hypothesis RuleBasedStateMachine (step-wise engine): rules submit / complete any in-flight job / cancel any future / advance "
    "virtual time, with the queue model compared to what reached the delegate after EVERY rule. "
    "Two of the catalogue programs are swept once more with every bytecode instruction of throttle.py as a scheduling point. Non-trivial = more submissions than count with a completion or queued-cancel interleaved, or a completion landing inside the "
    "hand-over loop iteration. Distinct = digest of the case."
)
ASSUMPTIONS = [
    "in-flight is measured from done-ness of the futures the delegate returned (tap), not from the library's counter",
    "dynamic count: bound = max of the values returned since (and including) the hand-over thread's latest evaluation; a raise keeps the previous value; hand-over promptness for a changed dynamic count is only required within the documented 30 s re-check",
    "exact clock mode",
]
TAP = "ex.tap0"
INF = 10 ** 9


def build(base, count, block):
    c = count if not isinstance(count, list) else {"script": count}
    return ["build", "ex", {"base": base, "layers": [{"kind": "throttle", "tap": True, "count": c, "block": block}]}]


def sub(name, script=None):
    return ["submit", "ex", name, {"script": script or [["tag"]]}]


def catalog():
    out = {}
    man = {"kind": "manual"}
    for count in (1, 2):
        # completion lands while the hand-over loop iterates; more submissions than capacity
        out["T2/count%d" % count] = {
            "count": count,
            "prog": {"setup": [build(man, count, False)],
                     "threads": [[sub("f0"), sub("f1"), sub("f2"), ["sleep", 1.0], ["run", "ex", 0], ["sleep", 0.5], ["run", "ex", 1], ["run", "ex", 2]],
                                 [["sleep", 1.0], sub("f3"), ["sleep", 1.0], ["run", "ex", 3]]],
                     "settle": 1, "final": [["runall", "ex"], ["sleep", 0.5], ["runall", "ex"], ["sleep", 0.5]]}}
        # queued cancel || pop
        out["T3/count%d" % count] = {
            "count": count,
            "prog": {"setup": [build(man, count, False), sub("f0"), sub("f1"), sub("f2"), ["sleep", 0.01]],
                     "threads": [[["run", "ex", 0]], [["cancel", "f2"], ["cancel", "f1"]]],
                     "settle": 1, "final": [["runall", "ex"], ["sleep", 0.5], ["runall", "ex"], ["sleep", 0.5]]}}
        # blocking submit || pop || completion
        out["T4/block-count%d" % count] = {
            "count": count, "block": True,
            "prog": {"setup": [build(man, count, True)],
                     "threads": [[sub("f0"), sub("f1"), sub("f2"), sub("f3")], [["sleep", 1.0], ["run", "ex", 0], ["sleep", 1.0], ["run", "ex", 1], ["sleep", 1.0], ["runall", "ex"]]],
                     "settle": 3, "final": [["runall", "ex"], ["sleep", 0.5], ["runall", "ex"], ["sleep", 0.5]]}}
    # the hand-over thread is already iterating (woken by a submit) when a completion lands: completion thread LAST
    for count in (1, 2):
        out["T2b/submit-then-completion-count%d" % count] = {
            "count": count,
            "prog": {"setup": [build(man, count, False), sub("f0"), sub("f1"), sub("f2"), ["sleep", 0.01]],
                     "threads": [[["sleep", 1.0], sub("f3")], [["sleep", 1.0], ["run", "ex", 0]]],
                     "settle": 1, "final": [["runall", "ex"], ["sleep", 0.5], ["runall", "ex"], ["sleep", 0.5], ["runall", "ex"], ["sleep", 0.5]]}}
    # two blocking submitters at the instant the queue drains
    out["T4b/two-blocking-submitters"] = {
        "count": 2, "block": True,
        "prog": {"setup": [build(man, 2, True), sub("f0"), sub("f1"), ["sleep", 0.01], sub("f2"), sub("f3"), ["sleep", 0.01]],
                 "threads": [[["sleep", 1.0], sub("f4")], [["sleep", 1.0], ["run", "ex", 0], ["run", "ex", 1], ["sleep", 1.0], ["runall", "ex"], ["sleep", 1.0], ["runall", "ex"]],
                             [["sleep", 1.0], sub("f5")]],
                 "settle": 3, "final": [["runall", "ex"], ["sleep", 0.5], ["runall", "ex"], ["sleep", 0.5]]}}
    out["T1/idle"] = {
        "count": 2,
        "prog": {"setup": [build(man, 2, False), ["sleep", 5.0]],
                 "threads": [[sub("f0")], [sub("f1")], [sub("f2")]],
                 "settle": 1, "final": [["runall", "ex"], ["sleep", 0.5], ["runall", "ex"], ["sleep", 0.5]]}}
    out["T5/pool"] = {
        "count": 1,
        "prog": {"setup": [build({"kind": "pool", "workers": 2}, 1, False)],
                 "threads": [[sub("f0", [["vsleep", 0.5, ["tag"]]]), sub("f1")], [sub("f2", [["vsleep", 0.25, ["tag"]]])]],
                 "settle": 2, "final": []}}
    # a user's done-callback on a throttled future takes a second: the slot is free from the instant the delegate future is
    # done, not from the instant the user's callbacks have returned
    out["T7/slow-user-callback"] = {
        "count": 1,
        "prog": {"setup": [build(man, 1, False), sub("f0"), ["add_cb", "f0", "slow", ["op", ["sleep", 1.0]]], sub("f1"), sub("f2"), ["sleep", 0.01]],
                 "threads": [[["sleep", 0.5], ["run", "ex", 0]], [["sleep", 2.5], ["runall", "ex"], ["sleep", 0.5], ["runall", "ex"]]],
                 "settle": 2, "final": [["runall", "ex"], ["sleep", 0.5]]}}
    # blocking mode: a submit() parked on the full queue is released by the cancellation of a queued future (nothing completes)
    out["T8/block-queued-cancel-releases-submitter"] = {
        "count": 2, "block": True,
        "prog": {"setup": [build(man, 2, True), sub("f0"), sub("f1"), ["sleep", 0.01], sub("f2"), sub("f3"), ["sleep", 0.01]],
                 "threads": [[["sleep", 0.5], sub("f4")], [["sleep", 1.0], ["cancel", "f3"]]],
                 "settle": 3, "final": [["runall", "ex"], ["sleep", 0.5], ["runall", "ex"], ["sleep", 0.5], ["runall", "ex"], ["sleep", 0.5]]}}
    out["T6/block-none"] = {
        "count": None, "block": True,
        "prog": {"setup": [build(man, None, True)],
                 "threads": [[sub("f0"), sub("f1")], [sub("f2")]],
                 "settle": 1, "final": [["runall", "ex"], ["sleep", 0.5]]}}
    # the same small programs with EVERY bytecode instruction of throttle.py as a scheduling point (an update written on one
    # source line can then be split)
    for src in ("T3/count1", "T2b/submit-then-completion-count1"):
        out["instr/" + src.replace("/", "-")] = dict(out[src], instr_points=["throttle.py"])
    return out


def evaluate(case):
    prog = case["prog"]
    s, w = progs.run_case(case)
    info = {"end": s.end_reason, "steps": s.steps, "preemptions": s.preemptions}
    viols = []
    count = case["count"]
    block = case.get("block", False)
    key = "count=%s,block=%s" % ("dyn" if isinstance(count, list) else count, block)

    def bad(sig, **d):
        viols.append({"signature": "C07:%s:%s" % (sig, key), "detail": d})

    h = world.History(s, w)
    ops = h.oplist()
    if s.end_reason != "done":
        if s.end_reason == "steps":
            info["inconclusive"] = True
            return viols, info
        stuck = getattr(s, "stuck_clients", None) or []
        blocked_submit = [o for o in h.unfinished_ops() if o["op"][0] == "submit"]
        if blocked_submit and block and not isinstance(count, list) and count is not None:
            # legal only while the queue holds >= count entries: replay accepted / handed-over / cancelled-while-queued
            o = blocked_submit[0]
            acc = [p for p in ops if p["op"][0] == "submit" and p["result"] == ["ok", "submitted"]]
            handed_fns = {}
            for ev in s.events:
                if ev[3] == "tap_submit" and ev[4]["tap"] == TAP:
                    handed_fns[ev[4]["fn"]] = ev[1]
            cancelled = set(p["op"][1] + ".fn" for p in ops if p["op"][0] == "cancel" and p["result"] == ["ok", True])
            still = [p for p in acc if p["op"][2] + ".fn" not in handed_fns and p["op"][2] + ".fn" not in cancelled]
            if len(still) < count:
                bad("submit-blocked-forever", op=o["op"][:3], queued_at_end=[p["op"][2] for p in still], end=s.end_reason)
            else:
                info["legit_park"] = True
        elif blocked_submit:
            bad("submit-blocked-forever", ops=[o["op"][:3] for o in blocked_submit], end=s.end_reason)
        else:
            bad("run-ended-%s" % s.end_reason, stuck=stuck)
        return viols, info
    dynamic = isinstance(count, list)
    # --- gather history
    handover_thread = None
    count_rets = []  # (seq, thread, value or 'raise')
    last_val = {}
    submits = []  # submit ops
    for o in ops:
        if o["op"][0] == "submit" and o["op"][1] == "ex":
            submits.append(o)
            if o["result"][0] == "exc":
                bad("submit-raised:%s" % o["result"][1], op=o["op"][:3], result=o["result"])
    taps, dones = [], {}
    for ev in s.events:
        k, d = ev[3], ev[4]
        if k == "tap_submit" and d["tap"] == TAP:
            taps.append({"seq": ev[0], "t": ev[1], "fn": d["fn"], "thread": ev[2], "not_done": d.get("not_done")})
            handover_thread = ev[2]
        elif k == "tap_done" and d["tap"] == TAP:
            dones[d["fn"]] = (ev[0], ev[1])
        elif k in ("ret", "raise") and d["fn"] == "ex.L0.count":
            count_rets.append((ev[0], ev[2], d["value"] if k == "ret" else "raise"))
    # --- (a) in-flight bound at every hand-over
    for i, tp in enumerate(taps):
        # not done = the delegate futures' states at the instant of the hand-over (the recorded done-callback can lag)
        inflight = 1 + (tp["not_done"] if tp["not_done"] is not None else
                        sum(1 for q in taps[:i] if not (q["fn"] in dones and dones[q["fn"]][0] < tp["seq"])))
        if not dynamic:
            bound = INF if count is None else count
        else:
            # values in force: last value returned on the hand-over thread before this hand-over, and anything returned since
            vals = []
            cur = None
            lastidx = None
            hist = [c for c in count_rets if c[0] < tp["seq"]]
            # effective value after each return: a raise keeps the previous one
            eff = []
            prev = None
            for c in hist:
                v = prev if c[2] == "raise" else c[2]
                prev = v
                eff.append((c[0], c[1], v))
            for j, c in enumerate(eff):
                if c[1] == tp["thread"]:
                    lastidx = j
            window = eff[lastidx:] if lastidx is not None else eff
            vals = [INF if c[2] is None else c[2] for c in window]
            bound = max(vals) if vals else INF
        if inflight > bound:
            bad("over-admission", inflight=inflight, bound=bound, handover=tp)
    # --- (b) FIFO: delegate submissions in submit order
    order = [tp["fn"] for tp in taps]
    pos = dict((fn, i) for i, fn in enumerate(order))
    oks = [o for o in submits if o["result"] == ["ok", "submitted"]]
    for a in oks:
        for b in oks:
            if a["ret_seq"] < b["call_seq"]:
                fa, fb = a["op"][2] + ".fn", b["op"][2] + ".fn"
                if fa in pos and fb in pos and pos[fa] > pos[fb]:
                    bad("fifo-order", first=a["op"][2], second=b["op"][2], delegate_order=order)
    # --- (c) no idle capacity (static count): whenever virtual time is about to advance (everything has
    #     settled at that instant), it must not be the case that something is queued while capacity is free
    nt = False
    if not dynamic:
        cap = INF if count is None else count
        evs = []
        for o in oks:
            evs.append((o["ret_seq"], o["ret_t"], "enq", o["op"][2] + ".fn"))
        for tp in taps:
            evs.append((tp["seq"], tp["t"], "hand", tp["fn"]))
        for fn, (seq, t) in dones.items():
            evs.append((seq, t, "done", fn))
        cancelled_ok = set()
        for o in ops:
            if o["op"][0] == "cancel" and o["result"] == ["ok", True]:
                evs.append((o["ret_seq"], o["ret_t"], "cancel", o["op"][1] + ".fn"))
        evs.sort()
        t_end = max([e[1] for e in s.events] or [0])
        queued, handed, done, cancelled = set(), set(), set(), set()
        for n, (seq, t, kind, fn) in enumerate(evs):
            if kind == "enq":
                if fn not in handed and fn not in cancelled:
                    queued.add(fn)
            elif kind == "hand":
                handed.add(fn)
                queued.discard(fn)
            elif kind == "done":
                done.add(fn)
            elif kind == "cancel":
                cancelled.add(fn)
                queued.discard(fn)
            t_next = evs[n + 1][1] if n + 1 < len(evs) else t_end
            if t_next > t + 1e-2:
                inflight = len(handed - done)
                if queued and inflight < cap:
                    bad("queued-with-free-capacity", at=t, until=t_next, queued=sorted(queued), inflight=inflight)
                    break
        if len(oks) > cap and (dones or cancelled):
            nt = True
    else:
        nt = len(oks) >= 2 and len(count_rets) >= 3
    # --- (d) blocking mode
    if block:
        cap = INF if (count is None or dynamic) else count
        for o in oks:
            # model queue length at the submit call: submissions accepted before and not yet handed over at that seq
            # (weakest reading: every submission that may have been accepted before this one entered the gate)
            qlen = 0
            ahead = []
            for p in oks:
                if p is o or p["call_seq"] > o["ret_seq"]:
                    continue
                fn = p["op"][2] + ".fn"
                if fn in pos and taps[pos[fn]]["seq"] < o["call_seq"]:
                    continue
                qlen += 1
                ahead.append(p)
            if o["ret_t"] - o["call_t"] > 1e-2 and not dynamic:
                # it was parked: legal only while the queue held >= cap entries; find when the queue dropped below cap
                t_free = None
                pending = ahead
                handed = [taps[pos[p["op"][2] + ".fn"]]["t"] for p in pending if p["op"][2] + ".fn" in pos and taps[pos[p["op"][2] + ".fn"]]["seq"] > o["call_seq"]]
                # a queued future also leaves the queue when it is cancelled (successfully, while still queued)
                for p in pending:
                    if p["op"][2] + ".fn" in pos:
                        continue
                    cs = [c for c in ops if c["op"][0] == "cancel" and c["op"][1] == p["op"][2] and c["result"] == ["ok", True] and c["ret_seq"] and c["ret_seq"] > o["call_seq"]]
                    if cs:
                        handed.append(min(c["ret_t"] for c in cs))
                handed.sort()
                need = qlen - cap + 1
                if need <= 0:
                    t_free = o["call_t"]
                elif need <= len(handed):
                    t_free = handed[need - 1]
                if t_free is not None and o["ret_t"] > t_free + 1e-2:
                    bad("blocked-submit-not-released", op=o["op"][:3], queue_below_count_at=t_free, returned_at=o["ret_t"])
                    nt = True
    info["nt"] = nt
    return viols, info


def account(ctx, case, viols, info, extra=()):
    if info.get("inconclusive"):
        ctx.inconclusive += 1
    c = case["count"]
    cls = ["end:" + info["end"], "count:%s" % ("dyn" if isinstance(c, list) else c), "block:%s" % case.get("block", False),
           "preempt:%d" % min(info.get("preemptions", 0), 3)] + list(extra)
    ctx.case(case, bool(info.get("nt")), cls, sample={"case": case})
    new = False
    for v in viols:
        if ctx.violation(v["signature"], case, v["detail"]):
            new = True
    return new


def case_strategy():
    from hypothesis import strategies as st
    import gen

    dyn = st.lists(st.one_of(st.sampled_from([0, 1, 2, 3, None]).map(lambda v: ["ret", v]), st.just(["raise", "E1"])), min_size=2, max_size=8)

    @st.composite
    def cases(draw):
        count = draw(st.one_of(st.sampled_from([0, 1, 1, 2, 2, 3, None]), dyn))
        if isinstance(count, list) and count[0][0] == "raise":
            count = [["ret", 1]] + count  # the constructor evaluates the callable once, unguarded
        block = draw(st.sampled_from([False, False, True]))
        if block and (count == 0 or (isinstance(count, list) and any(c == ["ret", 0] for c in count))):
            block = False  # count 0 + blocking legitimately parks forever
        basekind = draw(st.sampled_from(["manual", "manual", "pool"]))
        base = {"kind": "manual"} if basekind == "manual" else {"kind": "pool", "workers": draw(st.integers(1, 3))}
        nsub = draw(st.integers(2, 6))
        nthreads = draw(st.integers(1, 3))
        threads = [[] for _ in range(nthreads)]
        for i in range(nsub):
            t = threads[i % nthreads]
            d = draw(st.sampled_from([0, 0, 0.25, 0.5]))
            if d:
                t.append(["sleep", d])
            script = [["tag"]] if basekind == "manual" else draw(st.sampled_from([[["tag"]], [["vsleep", 0.25, ["tag"]]], [["vsleep", 0.5, ["raise", "E0"]]]]))
            t.append(sub("f%d" % i, script))
            if draw(st.integers(0, 5)) == 0 and i > 0:
                t.append(["cancel", "f%d" % draw(st.integers(0, i))])
        comp = []
        if basekind == "manual":
            for _ in range(draw(st.integers(1, 6))):
                d = draw(st.sampled_from([0, 0.25, 0.5, 1.0]))
                if d:
                    comp.append(["sleep", d])
                j = draw(st.integers(0, nsub - 1))
                comp.append(draw(st.sampled_from([["run", "ex", j], ["run", "ex", j], ["complete", "ex.base.j%d" % j, "cancel"], ["runall", "ex"]])))
            if block:
                for _ in range(2 * nsub + 4):
                    comp += [["sleep", 0.5], ["runall", "ex"]]
            threads.append(comp)
        final = []
        for _ in range(nsub + 1):
            final += [["runall", "ex"], ["sleep", 0.5]] if basekind == "manual" else [["sleep", 0.5]]
        prog = {"setup": [build(base, count, block)], "threads": threads, "settle": 3, "final": final}
        return {"prog": prog, "count": count, "block": block, "tape": draw(gen.tapes(8)), "clock": "exact", "max_vtime": 150}

    return cases()


def shards(tier, seed):
    cat = sorted(catalog())
    specs = [{"mode": "sweep", "entries": [n], "double": tier == "thorough"} for n in cat]
    n = 300 if tier == "quick" else 5000
    for i in range(8):
        specs.append({"mode": "random", "seed": seed * 1000 + i, "n": n})
    # rule-based state machine (step-wise engine): one op per rule, model compared at every quiescent point
    for i in range(4):
        specs.append({"mode": "machine", "seed": seed * 1000 + 500 + i, "n": 60 if tier == "quick" else 1500, "steps": 30 if tier == "quick" else 60})
    return specs


def run_shard(spec, ctx):
    if spec["mode"] == "sweep":
        cat = catalog()
        for name in spec["entries"]:
            ent = cat[name]
            extra = {"count": ent["count"], "block": ent.get("block", False), "entry": name, "max_vtime": 150}
            if ent.get("instr_points"):
                extra["instr_points"] = ent["instr_points"]
            progs.sweep(ctx, ent["prog"], name, evaluate, account, double=spec.get("double") and not ent.get("instr_points"), extra=extra)
    elif spec["mode"] == "machine":
        import machines
        machines.run_machine(machines.make_throttle_machine, ctx, spec["seed"], spec["n"], spec["steps"])
    else:
        progs.random_search(ctx, spec, case_strategy(), evaluate, account)


def replay(case):
    if case.get("machine") == "throttle":
        import machines
        return machines.replay_throttle(case)
    viols, info = evaluate(case)
    return viols
