"""C01 - composed executors deliver each callable's own outcome, exactly once."""
import harness
import progs
import world
import models

PROPERTY = "C01"
LEVEL = "exploration"
RULE = (
    "cases = (stack of 1-6 layers drawn from all seven layer types in any order over sync or thread_pool(1-3), 2-6 submissions "
    "from 1-3 submitter threads each with its own args/kwargs (a third of them with a keyword named like a parameter of the library's own methods: fn, timeout, retry_policy, ...) and per-invocation outcome script, scripted layer functions / retry "
    "policies / poll behaviours, tape<=8). Oracle: a sequential reference interpreter of the same layers (lib/models.py StackModel) "
    "gives per submission the outcome (value tag or the very exception object), the number of invocations and the layer-function call "
    "counts; tags make any mis-routing between submissions visible. Non-trivial = depth>=2, >=2 submissions, >=1 pre-emption taken and "
    "one of {>=2 attempts, a failing/absorbing map or flat_map, a delayed or failing poll}. Distinct = digest of (program, tape)."
)
ASSUMPTIONS = [
    "timeouts are long enough never to fire and nobody cancels, so no future ends cancelled (cancelled futures are exempt by the statement)",
    "layer functions behave as a function of their argument only, so the reference is independent of the interleaving",
    "a BaseException that is not an Exception is raised only by callables on a thread-pool base (whose worker stores it on the future) and only "
    "in stacks without error functions: user code that raises one ON a library thread is outside what the library (or the stdlib's callback "
    "invoker) promises to survive",
]


def evaluate(case):
    s, w = progs.run_case(case)
    info = {"end": s.end_reason, "steps": s.steps, "preemptions": s.preemptions}
    viols = []
    prog = case["prog"]

    def bad(sig, **d):
        viols.append({"signature": "C01:" + sig, "detail": d})

    if s.end_reason != "done":
        if s.end_reason == "steps":
            info["inconclusive"] = True
        else:
            bad("run-ended-%s" % s.end_reason, stuck=getattr(s, "stuck_clients", None))
        return viols, info
    stack = prog["setup"][0][2]
    model = models.StackModel("ex", stack)
    h = world.History(s, w)
    subs = {}
    for o in h.oplist("submit"):
        subs[o["op"][2]] = o
    finals = dict((o["op"][1], o["result"]) for o in h.oplist("state"))
    calls = {}
    for ev in s.events:
        if ev[3] == "call":
            calls.setdefault(ev[4]["fn"], []).append(ev)
    total_fn_calls = {}
    feats = set()
    for fname, o in sorted(subs.items()):
        spec = o["op"][3]
        if o["result"] != ["ok", "submitted"]:
            bad("submit-raised:%s" % o["result"][1], result=o["result"], fut=fname)
            continue
        m = model.run(fname, spec)
        exp = m["outcome"]
        for k, v in m["fn_calls"].items():
            total_fn_calls[k] = total_fn_calls.get(k, 0) + v
        if m["invocations"] >= 2:
            feats.add("attempts>=2")
        if m["elapsed"] > 0:
            feats.add("delayed")
        if exp.kind == "e":
            feats.add("fails")
        st = finals.get(fname)
        if not st or st[0] != "ok":
            bad("state-unavailable", fut=fname, state=st)
            continue
        st = st[1]
        if st["cancelled"]:
            if exp.kind != "c":
                bad("unexpectedly-cancelled", fut=fname, expected=exp.key())
            continue
        if not st["done"]:
            if exp.kind != "pending":
                bad("pending-outcome-dropped", fut=fname, expected=exp.key())
            continue
        if exp.kind == "v":
            if "value" not in st or st["value"] != exp.value:
                bad("wrong-value" if "value" in st else "exception-for-value", fut=fname, expected=exp.key(), got=st)
        elif exp.kind == "e":
            if "exc" not in st:
                bad("value-for-exception", fut=fname, expected=exp.key(), got=st)
            elif st["exc"][1] != exp.etype or (exp.tag is not None and st["exc"][2] != exp.tag):
                bad("wrong-exception", fut=fname, expected=exp.key(), got=st)
            elif exp.tag is not None and st.get("exc_same") is not True:
                bad("exception-not-the-raised-object", fut=fname, got=st)
        else:
            bad("done-but-model-says-%s" % exp.kind, fut=fname, got=st)
        cl = calls.get(fname + ".fn", [])
        if len(cl) != m["invocations"]:
            bad("invocation-count", fut=fname, expected=m["invocations"], got=len(cl))
        want_args = world.jsonable(spec.get("args", []))
        want_kwargs = world.jsonable(spec.get("kwargs", {}))
        for ev in cl:
            if ev[4]["args"] != want_args or ev[4]["kwargs"] != want_kwargs:
                bad("wrong-arguments", fut=fname, expected=[want_args, want_kwargs], got=[ev[4]["args"], ev[4]["kwargs"]])
                break
    for name, n in sorted(total_fn_calls.items()):
        got = len(calls.get(name, []))
        if got != n:
            bad("layer-fn-call-count", fn=name, expected=n, got=got)
    for name in calls:
        if (name.endswith(".fn") or name.endswith(".err")) and ".L" in name and name not in total_fn_calls:
            bad("layer-fn-called-unexpectedly", fn=name, got=len(calls[name]))
    info["feats"] = sorted(feats)
    info["depth"] = len(stack["layers"])
    info["nsubs"] = len(subs)
    return viols, info


def nontrivial(info):
    return info.get("depth", 0) >= 2 and info.get("nsubs", 0) >= 2 and info.get("preemptions", 0) >= 1 and bool(info.get("feats"))


def account(ctx, case, viols, info, extra=()):
    if info.get("inconclusive"):
        ctx.inconclusive += 1
    stack = case["prog"]["setup"][0][2]
    cls = ["end:" + info["end"], "depth:%d" % len(stack["layers"]), "base:" + stack["base"]["kind"],
           "preempt:%d" % min(info.get("preemptions", 0), 3)] + ["feat:" + f for f in info.get("feats", [])] + \
          ["layer:" + l["kind"] for l in stack["layers"]]
    ctx.case(case, nontrivial(info), cls, sample={"case": case, "steps": info.get("steps")})
    new = False
    for v in viols:
        if ctx.violation(v["signature"], case, v["detail"]):
            new = True
    return new


def case_strategy(max_depth=6):
    from hypothesis import strategies as st
    import gen

    map_fn = st.sampled_from([None, [["app", "m"]], [["app", "m"]], [["raisearg", "E1"]]])
    err_fn = st.sampled_from([None, None, [["app", "h"]], [["reraise"]], [["raisearg", "E2"]], [["retexc"]], [["ret", None]], [["ret", 0]]])
    flat_fn = st.sampled_from([None, [["futarg", "done"]], [["futarg", "done"]], [["futarg", "err", "E2"]], [["raisearg", "E1"]], [["nonfut"]]])

    flat_err = st.sampled_from([None, None, [["futarg", "done"]], [["futarg", "err", "E3"]], [["raisearg", "E2"]], [["reraise"]], [["nonfut"]]])

    def layer():
        return st.one_of(
            st.builds(lambda f, e: {"kind": "map", "fn": f, "err": e}, map_fn, err_fn),
            st.builds(lambda f, e: {"kind": "flat_map", "fn": f, "err": e}, flat_fn, flat_err),
            gen.retry_policies().map(lambda p: {"kind": "retry", "policy": p}),
            st.builds(lambda iv: {"kind": "poll", "interval": iv, "per_sub": {}}, gen.DELAYS),
            # (blocking mode too: submit() then waits for room in the queue instead of queueing without bound)
            st.tuples(st.sampled_from([1, 2, 3, None]), st.sampled_from([False, False, True])).map(
                lambda cb: {"kind": "throttle", "count": cb[0], "block": bool(cb[1] and cb[0] is not None)}),
            st.just({"kind": "timeout", "t": 5000.0}),
            st.just({"kind": "cos"}),
        )

    @st.composite
    def cases(draw):
        base = draw(st.sampled_from([{"kind": "sync"}, {"kind": "pool", "workers": 1}, {"kind": "pool", "workers": 2}, {"kind": "pool", "workers": 3}]))
        layers = draw(st.lists(layer(), min_size=1, max_size=max_depth))
        nthreads = draw(st.integers(1, 3))
        nsubs = draw(st.integers(2, 6))
        threads = [[] for _ in range(nthreads)]
        names = []
        for i in range(nsubs):
            fname = "f%d" % i
            names.append(fname)
            script = draw(gen.simple_call_scripts(4))
            if base["kind"] == "pool" and not any(l.get("err") for l in layers) and draw(st.integers(0, 7)) == 0:
                # (no error functions in the stack: one that re-raises would raise a BaseException from user code on a library
                # thread, which neither the library nor the stdlib's callback invoker promises to survive)
                # the last attempt ends with a BaseException that is not an Exception (a pool worker stores it on the future)
                script = list(script[:-1]) + [["raise", "EB"]]
            spec = {"script": script, "args": [i, "x"], "kwargs": {"kw": i}}
            if draw(st.integers(0, 2)) == 0:
                # a keyword of the callable that happens to be a parameter name somewhere in the library's own signatures
                spec["kwargs"][draw(st.sampled_from(["fn", "timeout", "retry_policy", "delegate", "name", "wait", "args", "kwargs"]))] = ["kwv", i]
            for L in layers:
                if L["kind"] == "poll":
                    L["per_sub"][fname + ".fn"] = draw(st.sampled_from([
                        {"after": 1}, {"after": 1}, {"after": 2}, {"after": 3}, {"after": 1, "then": ["exc", "E1"]},
                        {"after": 2, "then": ["exc", "E3"]}, {"after": 1, "then": ["res2", ["y", i], ["z", i]]}]))
            threads[draw(st.integers(0, nthreads - 1))].append(["submit", "ex", fname, spec])
        stack = {"base": base, "layers": layers}
        model = models.StackModel("ex", stack)
        settle = 5.0
        for t in threads:
            for op in t:
                # throttle layers can serialise submissions, so allow the sum
                settle += model.run(op[2], op[3])["elapsed"]
        prog = {"setup": [["build", "ex", stack]], "threads": threads, "settle": settle,
                "final": [["state", n] for n in names]}
        return {"prog": prog, "tape": draw(gen.tapes(8)), "clock": "exact", "max_steps": 600000}

    return cases()


def shards(tier, seed):
    n = 300 if tier == "quick" else 5000
    return [{"mode": "random", "seed": seed * 1000 + i, "n": n, "max_depth": 6 if i % 2 else 3} for i in range(16)]


def run_shard(spec, ctx):
    progs.random_search(ctx, spec, case_strategy(spec.get("max_depth", 6)), evaluate, account)


def replay(case):
    viols, info = evaluate(case)
    return viols
