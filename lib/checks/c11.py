"""C11 - shutdown: submit refuses afterwards, idempotent, propagates, joins, returns."""
import harness
import progs
import world

PROPERTY = "C11"
LEVEL = "exploration"
RULE = (
    "cases = (stack of 1-4 layers of every executor type - incl. with_asyncio outermost, loop never run - over a manual or thread-pool "
    "base with a recording tap below every layer; workload at shutdown time: idle, queued in a throttle, sleeping between retries, being "
    "polled, callable running; shutdown(wait in {True, False}, cancel_futures in {absent, True, False}) issued by one thread at a generated "
    "virtual time, followed by a thread snapshot, a submit and a second shutdown; 0-2 submitter threads racing with it; tape; both clock "
    "modes). Enumerated: submit || shutdown and shutdown || worker-loop programs per layer type with every single pre-emption placement. "
    "Oracle: shutdown() returns; afterwards submit() raises exactly RuntimeError('cannot schedule new futures after shutdown'); a second "
    "shutdown() returns; every tap down the chain and the base recorded exactly one shutdown with the same wait and cancel_futures; with "
    "wait=True every thread the stack created has exited when shutdown() returns; racing submits raise that error or return a future. "
    "Non-trivial = a non-idle workload or a racing submit overlapping the shutdown call. Distinct = digest of the case."
)
ASSUMPTIONS = ["callables blocked on a gate are released by the program before a wait=True shutdown (otherwise the delegate legitimately waits)",
               "only one thread calls shutdown() at a time"]
MSG = "cannot schedule new futures after shutdown"

LAYERS = {
    "map": {"kind": "map", "fn": [["app", "m"]], "err": None},
    "flat_map": {"kind": "flat_map", "fn": [["futarg", "done"]], "err": None},
    "retry": {"kind": "retry", "policy": {"type": "exc", "max_attempts": 3, "sleep": 1.0, "exponent": 1.0}},
    "poll": {"kind": "poll", "interval": 0.5, "per_sub": {}},
    "throttle": {"kind": "throttle", "count": 1},
    "throttle-block": {"kind": "throttle", "count": 1, "block": True},
    "timeout": {"kind": "timeout", "t": 5000.0},
    "cos": {"kind": "cos"},
}


def build(names, base, asyncio_top=False):
    layers = [dict(LAYERS[n], tap=True) for n in names]
    if asyncio_top:
        layers.append({"kind": "asyncio", "tap": True})
    return ["build", "ex", {"base": base, "layers": layers}]


def sub(name, script=None, ex="ex"):
    return ["submit", ex, name, {"script": script or [["tag"]]}]


def shutdown_op(wait, cf):
    return ["shutdown", "ex", wait, {} if cf is None else {"cancel_futures": cf}]


def catalog():
    out = {}
    man = {"kind": "manual"}
    for lname in sorted(LAYERS):
        for wait in (True, False):
            pre = [build([lname], man), sub("p0", [["raise", "E0"], ["tag"]]), sub("p1"), ["sleep", 0.01], ["run", "ex", 0]]
            out["race/%s/wait=%s" % (lname, wait)] = {"prog": {
                "setup": pre,
                "threads": [[["sleep", 0.5], shutdown_op(wait, None), ["threads"], sub("after"), shutdown_op(wait, None)],
                            [["sleep", 0.5], sub("s0"), sub("s1")], [["sleep", 0.5], ["runall", "ex"]]],
                "settle": 2, "final": [["runall", "ex"], ["sleep", 2]]}}
            # the worker is already mid-iteration (woken by the submits/completions) when shutdown starts
            out["race-late/%s/wait=%s" % (lname, wait)] = {"prog": {
                "setup": pre,
                "threads": [[["sleep", 0.5], sub("s0"), sub("s1")], [["sleep", 0.5], ["runall", "ex"]],
                            [["sleep", 0.5], shutdown_op(wait, None), ["threads"], sub("after"), shutdown_op(wait, None)]],
                "settle": 2, "final": [["runall", "ex"], ["sleep", 2]]}}
        # two threads calling shutdown() at the same instant
        out["double/%s" % lname] = {"prog": {
            "setup": [build([lname], man), sub("p0"), ["sleep", 0.01]],
            "threads": [[["sleep", 0.5], shutdown_op(False, None), sub("after")], [["sleep", 0.5], shutdown_op(False, None), sub("after2")]],
            "settle": 2, "final": [["runall", "ex"], ["sleep", 1]]}}
    # a submit() parked by a blocking throttle must not keep shutdown(wait=False) from returning
    out["parked-submit/throttle-block"] = {"prog": {
        "setup": [build(["throttle-block"], {"kind": "pool", "workers": 1}), sub("p0", [["gate", "g", ["tag"]]]), sub("p1"), ["sleep", 0.25]],
        "threads": [[["sleep", 0.5], shutdown_op(False, None), ["open", "g"], ["sleep", 1.0], sub("after")], [sub("s0")]],
        "settle": 2, "final": [["open", "g"]]}}
    # the retry layer's own worker is parked inside a blocking throttle's submit(): shutdown(wait=True) must release it
    # (by shutting the delegate down) before it joins it
    # (the job in flight never finishes: it is being polled by a poll function that never yields, so only shutdown can free the worker)
    never = dict(LAYERS["poll"], per_sub={"p0.fn": {"after": None}, "p1.fn": {"after": None}, "p2.fn": {"after": None}}, tap=True)
    for wait in (True, False):
        out["parked-worker/retry-over-throttle-block/wait=%s" % wait] = {"prog": {
            "setup": [["build", "ex", {"base": {"kind": "sync"}, "layers": [never, dict(LAYERS["throttle-block"], tap=True), dict(LAYERS["retry"], tap=True)]}],
                      sub("p0"), sub("p1"), sub("p2"), ["sleep", 0.25]],
            "threads": [[["sleep", 0.5], shutdown_op(wait, None), ["threads"], sub("after")]],
            "settle": 2, "final": []}}
    # a submit() that fails below the gate (the base cannot start a thread) must leave the executor usable and closable
    # from other threads while the failing thread lives on
    for lname in ("map", "flat_map", "timeout", "poll", "cos"):
        out["failed-submit/" + lname] = {"prog": {
            "setup": [build([lname], man), ["base_fail", "ex", 1]],
            "threads": [[sub("f0"), ["sleep", 3.0]],
                        [["sleep", 0.5], sub("s0"), ["runall", "ex"], shutdown_op(True, None), ["threads"], sub("after")]],
            "settle": 2, "final": [["runall", "ex"], ["sleep", 1]]}}
    # shutdown(cancel_futures=True) of a (wrapped) thread pool cancels the queued work items, whose done-callbacks run inside the
    # pool's shutdown; one of them submits follow-up work to the same executor: it must be refused, not block
    for names in ([], ["map"], ["timeout"]):
        out["cancel-futures-callback-submits/" + ("+".join(names) or "pool")] = {"prog": {
            "setup": [build(names, {"kind": "pool", "workers": 1}), sub("p0", [["gate", "g", ["tag"]]]), sub("p1"), sub("p2"),
                      ["add_cb", "p1", "cb1", ["op", sub("n0")]], ["sleep", 0.25]],
            "threads": [[["sleep", 0.5], shutdown_op(False, True), ["open", "g"], ["sleep", 1.0], ["threads"], sub("after")]],
            "settle": 2, "final": [["open", "g"]]}}
    for names in (["retry", "poll"], ["throttle", "retry", "cos"], ["timeout", "map", "throttle"], ["poll", "flat_map", "retry", "timeout"]):
        out["chain/" + "+".join(names)] = {"prog": {
            "setup": [build(names, {"kind": "pool", "workers": 1}), sub("p0", [["raise", "E0"], ["tag"]]), sub("p1"), ["sleep", 0.25]],
            "threads": [[shutdown_op(True, True), ["threads"], sub("after"), shutdown_op(True, True)], [sub("s0")]],
            "settle": 2, "final": []}}
    # two small programs once more with EVERY bytecode instruction of helpers.py (the shutdown gate) / cancel_on_shutdown.py as a
    # scheduling point
    out["instr/double-map"] = dict(out["double/map"], instr_points=["helpers.py"])
    out["instr/double-cos"] = dict(out["double/cos"], instr_points=["helpers.py", "cancel_on_shutdown.py"])
    return out


def evaluate(case):
    prog = case["prog"]
    s, w = progs.run_case(case)
    info = {"end": s.end_reason, "steps": s.steps, "preemptions": s.preemptions}
    viols = []
    stack = prog["setup"][0][2]
    key = "+".join(l["kind"] + ("-block" if l.get("block") else "") for l in stack["layers"])

    def bad(sig, **d):
        d["stack"] = key
        viols.append({"signature": "C11:%s:%s" % (sig, case.get("sigkey", key)), "detail": d})

    h = world.History(s, w)
    ops = h.oplist()
    sds = [o for o in ops if o["op"][0] == "shutdown"]
    if s.end_reason != "done":
        if s.end_reason == "steps":
            info["inconclusive"] = True
            return viols, info
        hung = [o for o in h.unfinished_ops()]
        if any(o["op"][0] == "shutdown" for o in hung):
            bad("shutdown-did-not-return", unfinished=[o["op"][:3] for o in hung], stuck=getattr(s, "stuck_clients", None), end=s.end_reason)
        else:
            bad("run-ended-%s" % s.end_reason, unfinished=[o["op"][:3] for o in hung], stuck=getattr(s, "stuck_clients", None))
        return viols, info
    if not sds:
        return viols, info
    first = min(sds, key=lambda o: o["ret_seq"])  # the first shutdown() to have returned
    for o in sds:
        if o["result"][0] != "ok":
            bad("shutdown-raised:%s" % o["result"][1], result=o["result"], first=o is first)
    wait = first["op"][2]
    kwargs = first["op"][3] if len(first["op"]) > 3 else {}
    nt = False
    # submits
    for o in ops:
        if o["op"][0] != "submit" or not o["op"][1].startswith("ex"):
            continue
        r = o["result"]
        overl = o["call_seq"] < first["ret_seq"] and (o["ret_seq"] or 0) > min(x["call_seq"] for x in sds)
        if overl:
            nt = True
        inner_target = ":" in o["op"][1]
        settled = all(x["ret_seq"] < o["call_seq"] for x in sds if x["call_seq"] < o["call_seq"])
        if o["call_seq"] > first["ret_seq"] and (settled or not inner_target):
            # (a submit aimed at a wrapped executor is only covered once every shutdown() call in progress has returned)
            if not (r[0] == "exc" and r[1] == "RuntimeError" and r[2] == MSG):
                bad("submit-after-shutdown:%s" % (r[1] if r[0] == "exc" else r[0]), result=r[:3], level=o["op"][1])
        elif r[0] == "exc" and r[1] == "OSError" and any(ev[3] == "base_submit_failed" and o["call_seq"] < ev[0] < o["ret_seq"] for ev in s.events):
            pass  # the injected fault of the base, propagated to the caller
        elif r[0] == "exc" and not (r[1] == "RuntimeError" and r[2] == MSG):
            bad("racing-submit-raised-other:%s" % r[1], result=r[:3])
        elif r[0] == "exc" and o["ret_seq"] < min(x["call_seq"] for x in sds):
            bad("submit-refused-before-shutdown", result=r[:3])
    # propagation: one shutdown per tap and at the base, same arguments
    seen = {}
    for ev in s.events:
        if ev[3] == "tap_shutdown":
            seen.setdefault(ev[4]["tap"], []).append(ev)
        elif ev[3] == "base_shutdown":
            seen.setdefault("base", []).append(ev)
    expected = ["ex.tap%d" % i for i in range(len(stack["layers"]))] + (["base"] if stack["base"]["kind"] == "manual" else [])
    for t in expected:
        evs = seen.get(t, [])
        if len(evs) != 1:
            bad("delegate-shutdown-%d-times" % len(evs), at=t)
            continue
        d = evs[0][4]
        if d["wait"] != wait or d["kwargs"] != kwargs:
            bad("delegate-shutdown-arguments", at=t, got=[d["wait"], d["kwargs"]], want=[wait, kwargs])
        if not any(o["call_seq"] < evs[0][0] < o["ret_seq"] for o in sds):
            bad("delegate-shutdown-outside-any-shutdown-call", at=t)
    # threads
    if wait is True:
        for o in ops:
            # (a concurrent, losing shutdown() may return while the winner is still joining: wait for all of them)
            if o["op"][0] == "threads" and o["result"][0] == "ok" and \
                    all(x["ret_seq"] < o["call_seq"] for x in sds if x["call_seq"] < o["call_seq"]) and o["call_seq"] > first["ret_seq"]:
                alive = [n for n in o["result"][1] if n.split("-")[0] in ("RetryExecutor", "PollExecutor", "ThrottleExecutor", "TimeoutExecutor", "ThreadPoolExecutor")]
                if alive:
                    bad("threads-alive-after-shutdown-wait:%s" % "+".join(sorted(set(n.split("-")[0] for n in alive))), alive=alive)
                break
    # workload
    if any(l["kind"] in ("retry", "poll", "throttle") for l in stack["layers"]) and any(o["op"][0] == "submit" and o["call_seq"] < first["call_seq"] for o in ops):
        nt = True
    info["nt"] = nt
    return viols, info


def account(ctx, case, viols, info, extra=()):
    if info.get("inconclusive"):
        ctx.inconclusive += 1
    cls = ["end:" + info["end"], "preempt:%d" % min(info.get("preemptions", 0), 3), "nt:%s" % info.get("nt")] + list(extra)
    ctx.case(case, bool(info.get("nt")), cls, sample={"case": case})
    new = False
    for v in viols:
        if ctx.violation(v["signature"], case, v["detail"]):
            new = True
    return new


def case_strategy():
    from hypothesis import strategies as st
    import gen

    @st.composite
    def cases(draw):
        names = draw(st.lists(st.sampled_from(sorted(LAYERS)), min_size=1, max_size=4))
        basekind = draw(st.sampled_from(["manual", "manual", "pool"]))
        if basekind == "manual":
            names = [n if n != "throttle-block" else "throttle" for n in names]
        base = {"kind": "manual"} if basekind == "manual" else {"kind": "pool", "workers": draw(st.integers(1, 2))}
        asyncio_top = draw(st.integers(0, 5)) == 0
        setup = [build(names, base, asyncio_top)]
        target = "ex:%d" % len(names) if asyncio_top else "ex"
        npre = draw(st.integers(0, 4))
        for i in range(npre):
            script = draw(st.sampled_from([[["tag"]], [["raise", "E0"], ["tag"]], [["raise", "E0"], ["raise", "E0"], ["tag"]], [["vsleep", 0.5, ["tag"]]],
                                           [["gate", "g", ["tag"]]]]))
            if basekind == "manual" and script[0][0] in ("gate", "vsleep"):
                script = [["tag"]]
            if "throttle-block" in names and script[0][0] == "gate":
                script = [["vsleep", 0.25, ["tag"]]]  # the setup thread itself would park behind a gated job
            setup.append(sub("p%d" % i, script, target))
        setup.append(["sleep", draw(st.sampled_from([0.01, 0.25, 0.6]))])
        if basekind == "manual":
            for i in range(npre):
                if draw(st.booleans()):
                    setup.append(["run", "ex", i])
        wait = draw(st.booleans())
        cf = draw(st.sampled_from([None, None, True, False]))
        main = []
        d = draw(st.sampled_from([0, 0, 0.25, 0.5]))
        if d:
            main.append(["sleep", d])
        main += [["open", "g"], shutdown_op(wait, cf), ["threads"], sub("after", None, target), shutdown_op(wait, cf), sub("after2", None, target)]
        threads = [main]
        if draw(st.integers(0, 4)) == 0:
            threads.append(([["sleep", d]] if d else []) + [shutdown_op(wait, cf)])
        for t in range(draw(st.integers(0, 2))):
            ops = []
            dd = draw(st.sampled_from([0, 0, 0.25, 0.5]))
            if dd:
                ops.append(["sleep", dd])
            for k in range(draw(st.integers(1, 2))):
                ops.append(sub("s%d_%d" % (t, k), None, target))
            threads.append(ops)
        if basekind == "manual" and draw(st.booleans()):
            threads.append([["sleep", draw(st.sampled_from([0, 0.25]))], ["runall", "ex"]])
        if draw(st.booleans()):
            threads = threads[1:] + threads[:1]  # the shutdown thread is not always the first to run at an instant
        prog = {"setup": setup, "threads": threads, "settle": 2, "final": [["open", "g"], ["sleep", 1]]}
        return {"prog": prog, "tape": draw(gen.tapes(8)), "clock": draw(st.sampled_from(["exact", "exact", "preempt"])), "max_vtime": 200}

    return cases()


def shards(tier, seed):
    cat = sorted(catalog())
    specs = []
    for i in range(0, len(cat), 2):
        specs.append({"mode": "sweep", "entries": cat[i:i + 2], "double": tier == "thorough"})
    n = 300 if tier == "quick" else 5000
    for i in range(8):
        specs.append({"mode": "random", "seed": seed * 1000 + i, "n": n})
    return specs


def run_shard(spec, ctx):
    if spec["mode"] == "sweep":
        cat = catalog()
        for name in spec["entries"]:
            extra = {"entry": name, "max_vtime": 200}
            if cat[name].get("instr_points"):
                extra["instr_points"] = cat[name]["instr_points"]
            progs.sweep(ctx, cat[name]["prog"], name, evaluate, account, double=spec.get("double") and not cat[name].get("instr_points"), extra=extra)
    else:
        progs.random_search(ctx, spec, case_strategy(), evaluate, account)


def replay(case):
    viols, info = evaluate(case)
    return viols
