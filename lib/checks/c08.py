"""C08 - poll: one poll at a time, exact descriptor set, first yield wins, prompt polls, cancel veto."""
import harness
import progs
import world
import models

PROPERTY = "C08"
LEVEL = "exploration"
RULE = (
    "cases = (PollExecutor over a manual base (delegate completions are program steps) or sync/pool; 1-5 futures; a scripted poll "
    "function: per future {yield result / exception / twice on its n-th sighting, or never}, per call {raise, return an interval, take "
    "virtual time, call notify()}; a scripted cancel function (True/False/raise/absent; one catalogue program has a cancel function that takes 1 s of virtual time while delegates finish and notify() is called); runner, canceller and notifier threads acting at "
    "generated virtual times; tape; exact clock). Enumerated: catalogue programs in which a delegate completion, a cancel, a yield and a "
    "notify all fall on the same virtual instant as a poll, with every single pre-emption placement. Oracle over the history: poll calls "
    "never overlap; each call's descriptor list has no duplicates, contains every future whose delegate-completing call returned "
    "before the poll began and which no resolving call had touched, contains none whose resolving call (yield, or cancel() returning True) "
    "had returned before, none for failed/unfinished delegates, each carrying the delegate's result; a future resolves with the first "
    "yield; a raising poll call fails exactly the unresolved futures it was shown; a new eligibility or notify() is followed by a poll "
    "within 0.01 s (or right after the running call); the cancel function is consulted only in the polling stage, with the delegate's "
    "result, and a False/raise vetoes. Two of the catalogue programs are swept once more with every bytecode instruction of poll.py as a scheduling point. Non-trivial = a registration, yield, cancel or notify overlapping a poll call or falling on the "
    "instant of one. Distinct = digest of the case."
)
ASSUMPTIONS = ["futures in transition (completion or resolving call overlapping the start of the poll call) may go either way",
               "exact clock mode; tolerance 0.01 s"]
EPS = 1e-2
PFN = "ex.L0.poll"
CFN = "ex.L0.cancelfn"


def stack(base, interval, per_sub, calls=None, cancel=None):
    L = {"kind": "poll", "interval": interval, "per_sub": per_sub, "calls": calls or [{}]}
    if cancel is not None:
        L["cancel"] = cancel
    return ["build", "ex", {"base": base, "layers": [L]}]


def sub(name, script=None):
    return ["submit", "ex", name, {"script": script or [["tag"]]}]


def catalog():
    out = {}
    man = {"kind": "manual"}
    per = {"f0.fn": {"after": 2}, "f1.fn": {"after": 1}, "f2.fn": {"after": 3, "then": ["exc", "E1"]}, "f3.fn": {"after": None}}
    # everything on the same instant as a poll: completions, cancel, notify
    out["P4/same-instant"] = {"prog": {
        "setup": [stack(man, 1.0, per, cancel=[["ret", True]]), sub("f0"), sub("f1"), sub("f2"), sub("f3"), ["sleep", 0.01], ["run", "ex", 0], ["run", "ex", 3]],
        "threads": [[["sleep", 1.0], ["run", "ex", 1]], [["sleep", 1.0], ["run", "ex", 2]], [["sleep", 1.0], ["cancel", "f3"], ["cancel", "f0"]],
                    [["sleep", 1.0], ["notify", "ex"]]],
        "settle": 4.5, "final": [["state", "f%d" % i] for i in range(4)]}}
    # registration / notify while the worker is between poll-fn return and wait/clear (long interval)
    out["P1/register-vs-wait"] = {"prog": {
        "setup": [stack(man, 5.0, {"f0.fn": {"after": 1}, "f1.fn": {"after": 2}}), sub("f0"), sub("f1"), ["sleep", 0.01]],
        "threads": [[["sleep", 0.5], ["run", "ex", 0]], [["sleep", 0.5], ["run", "ex", 1], ["sleep", 1.0], ["notify", "ex"]]],
        "settle": 1.0, "final": [["state", "f0"], ["state", "f1"]]}}
    # poll function that takes time: registration, notify and cancel land DURING the call
    out["P3/during-call"] = {"prog": {
        "setup": [stack(man, 5.0, {"f0.fn": {"after": 2}, "f1.fn": {"after": 1}, "f2.fn": {"after": None}}, calls=[{}, {"vsleep": 0.5}, {}], cancel=[["ret", True]]),
                  sub("f0"), sub("f1"), sub("f2"), ["sleep", 0.01], ["run", "ex", 0], ["run", "ex", 2]],
        "threads": [[["sleep", 0.25], ["run", "ex", 1]], [["sleep", 0.25], ["cancel", "f2"]], [["sleep", 0.5], ["notify", "ex"]]],
        "settle": 2.0, "final": [["state", "f0"], ["state", "f1"], ["state", "f2"]]}}
    # cancel() of a future whose delegate is completing at that very instant (vetoing cancel function)
    out["P6/cancel-vs-registration"] = {"prog": {
        "setup": [stack(man, 0.5, {"f0.fn": {"after": 3}, "f1.fn": {"after": 3}}, cancel=[["ret", False]]), sub("f0"), sub("f1"), ["sleep", 0.01]],
        "threads": [[["sleep", 1.0], ["run", "ex", 0], ["run", "ex", 1]], [["sleep", 1.0], ["cancel", "f0"], ["cancel", "f1"]]],
        "settle": 3.0, "final": [["state", "f0"], ["state", "f1"]]}}
    out["P6b/cancel-vs-registration-nocfn"] = {"prog": {
        "setup": [stack(man, 0.5, {"f0.fn": {"after": 3}, "f1.fn": {"after": 3}}), sub("f0"), sub("f1"), ["sleep", 0.01]],
        "threads": [[["sleep", 1.0], ["run", "ex", 0], ["run", "ex", 1]], [["sleep", 1.0], ["cancel", "f0"], ["cancel", "f1"]]],
        "settle": 3.0, "final": [["state", "f0"], ["state", "f1"]]}}
    # raising poll call fails exactly what it was shown; cancel veto
    out["P5/raise+veto"] = {"prog": {
        "setup": [stack(man, 0.5, {"f0.fn": {"after": None}, "f1.fn": {"after": None}, "f2.fn": {"after": 1}}, calls=[{}, {}, {"raise": "E2"}, {}],
                        cancel=[["ret", False], ["raise", "E3"], ["ret", True]]),
                  sub("f0"), sub("f1"), sub("f2", [["raise", "E0"]]), ["sleep", 0.01], ["run", "ex", 0]],
        "threads": [[["sleep", 0.25], ["cancel", "f0"], ["cancel", "f0"]], [["sleep", 0.25], ["run", "ex", 2]], [["sleep", 2.0], ["run", "ex", 1]]],
        "settle": 3.0, "final": [["state", "f0"], ["state", "f1"], ["state", "f2"]]}}
    # a raising poll call fails exactly what it was SHOWN: delegates completing while the failing call runs (it takes time),
    # or on the very instant it starts, were not shown to it and must be served by the next call
    out["P7/register-during-raising-call"] = {"prog": {
        "setup": [stack(man, 1.0, {"f0.fn": {"after": None}, "f1.fn": {"after": 1}, "f2.fn": {"after": 1}}, calls=[{}, {"vsleep": 0.5, "raise": "E2"}, {}]),
                  sub("f0"), sub("f1"), sub("f2"), ["sleep", 0.01], ["run", "ex", 0]],
        "threads": [[["sleep", 1.25], ["run", "ex", 1]], [["sleep", 1.5], ["run", "ex", 2]]],
        "settle": 3.0, "final": [["state", "f0"], ["state", "f1"], ["state", "f2"]]}}
    out["P7b/register-at-raising-call"] = {"prog": {
        "setup": [stack(man, 1.0, {"f0.fn": {"after": None}, "f1.fn": {"after": 1}}, calls=[{}, {"raise": "E2"}, {}]),
                  sub("f0"), sub("f1"), ["sleep", 0.01], ["run", "ex", 0]],
        "threads": [[["sleep", 1.0], ["run", "ex", 1]], [["sleep", 1.0], ["notify", "ex"]]],
        "settle": 3.0, "final": [["state", "f0"], ["state", "f1"]]}}
    # cancel() of a polled future while the poll call that will resolve it is in progress (the call takes time): swept with TWO
    # pre-emptions under the timers-may-pre-empt clock - cancel pauses, the yield lands, cancel resumes before the clean-up
    out["P8/cancel-vs-yield-in-progress"] = {"double_always": {"window": 40, "picks": (0,)}, "clock": "preempt", "prog": {
        "setup": [stack(man, 0.5, {"f0.fn": {"after": 2}}, calls=[{}, {"vsleep": 0.25}, {}], cancel=[["ret", True]]), sub("f0"), ["sleep", 0.01], ["run", "ex", 0]],
        "threads": [[["sleep", 0.74], ["cancel", "f0"]]],
        "settle": 1.5, "final": [["state", "f0"]]}}
    # cancel() of a polled future (vetoing cancel function) while an EARLIER-registered future is being resolved and
    # de-registered: the cancel path searches the descriptor list without the executor lock.  Swept with backward jumps as
    # scheduling points too (the search is a one-line comprehension) under the timers-may-pre-empt clock.
    out["P9/cancel-searches-while-another-future-deregisters"] = {"clock": "preempt", "jump_points": True, "prog": {
        "setup": [stack(man, 1.0, {"f0.fn": {"after": 2}, "f1.fn": {"after": None}, "f2.fn": {"after": None}}, cancel=[["ret", False]]),
                  sub("f0"), sub("f1"), sub("f2"), ["sleep", 0.01], ["run", "ex", 0], ["run", "ex", 1], ["run", "ex", 2]],
        "threads": [[["sleep", 0.99], ["cancel", "f1"], ["cancel", "f2"]]],
        "settle": 2.5, "final": [["state", "f0"], ["state", "f1"], ["state", "f2"]]}}
    # a cancel function that takes time: delegates finishing and a notify() landing while it runs must still be polled at once
    # (user code must not be run under a lock the poll thread or the completing threads need).  The future being cancelled is one
    # the poll function never yields for: cancel() holds that future's own lock while the cancel function runs, by design, so a
    # poll round that resolves it would rightly wait - slow cancel functions are therefore not part of the random generator.
    out["P10/eligible-and-notify-during-slow-cancel-fn"] = {"prog": {
        "setup": [stack(man, 5.0, {"f0.fn": {"after": None}, "f1.fn": {"after": 1}, "f2.fn": {"after": 2}}, cancel=[["vsleep", 1.0, ["ret", True]]]),
                  sub("f0"), sub("f1"), sub("f2"), ["sleep", 0.01], ["run", "ex", 0]],
        "threads": [[["sleep", 0.5], ["cancel", "f0"]], [["sleep", 0.75], ["run", "ex", 1]], [["sleep", 1.0], ["run", "ex", 2]], [["sleep", 1.25], ["notify", "ex"]]],
        "settle": 8.0, "final": [["state", "f0"], ["state", "f1"], ["state", "f2"]]}}
    # the same small programs with EVERY bytecode instruction of poll.py as a scheduling point
    for src in ("P1/register-vs-wait", "P6/cancel-vs-registration"):
        out["instr/" + src.replace("/", "-")] = dict(out[src], instr_points=["poll.py"])
    return out


def evaluate(case):
    prog = case["prog"]
    s, w = progs.run_case(case, trace_funcs=["_run_poll_fn", "_poll_loop"])
    info = {"end": s.end_reason, "steps": s.steps, "preemptions": s.preemptions}
    viols = []

    def bad(sig, **d):
        viols.append({"signature": "C08:" + sig, "detail": d})

    if s.end_reason != "done":
        if s.end_reason == "steps":
            info["inconclusive"] = True
        else:
            bad("run-ended-%s" % s.end_reason, stuck=getattr(s, "stuck_clients", None))
        return viols, info
    h = world.History(s, w)
    ops = h.oplist()
    L = prog["setup"][0][2]["layers"][0]
    interval = L["interval"]
    has_cfn = L.get("cancel") is not None
    futs = {}
    for o in ops:
        if o["op"][0] == "submit" and o["result"] == ["ok", "submitted"]:
            futs[o["op"][2] + ".fn"] = {"name": o["op"][2], "submit_ret": o["ret_seq"], "comp_start": None, "comp_end": None, "comp_t": None,
                                         "ok": None, "result": None, "yields": [], "cancels": [], "resolved_by_raise": None}
    # delegate completions
    cur = {}
    for ev in s.events:
        k, d = ev[3], ev[4]
        if k == "call" and d["fn"] in futs:
            futs[d["fn"]]["comp_start"] = ev[0]
            futs[d["fn"]]["comp_thread"] = ev[2]
        elif k == "ret" and d["fn"] in futs:
            futs[d["fn"]]["ok"] = True
            futs[d["fn"]]["result"] = d["value"]
        elif k == "raise" and d["fn"] in futs:
            futs[d["fn"]]["ok"] = False
        elif k == "job_end":
            pass
    # "completing call returned": the op (run/runall/submit on sync) that ran the callable
    for o in ops:
        if o["op"][0] in ("run", "runall", "submit"):
            for fn, F in futs.items():
                if F["comp_start"] is not None and o["thread"] == F.get("comp_thread") and o["call_seq"] <= F["comp_start"] <= (o["ret_seq"] or 10 ** 12) and F["comp_end"] is None:
                    F["comp_end"] = o["ret_seq"]
                    F["comp_t"] = o["ret_t"]
    for F in futs.values():
        if F["comp_start"] is not None and F["comp_end"] is None:
            # pool base: approximate by the callable's own return
            F["comp_end"] = F["comp_start"] + 10 ** 6
    # cancel ops
    for o in ops:
        if o["op"][0] == "cancel" and o["op"][1] + ".fn" in futs and o["result"][0] == "ok":
            futs[o["op"][1] + ".fn"]["cancels"].append(o)
        elif o["op"][0] == "cancel" and o["result"][0] == "exc":
            bad("cancel-raised:%s" % o["result"][1], result=o["result"])
    # poll calls
    calls = []
    open_call = None
    last_enter = None
    for ev in s.events:
        k, d = ev[3], ev[4]
        if k == "enter" and d["func"] == "_run_poll_fn":
            last_enter = ev[0]
        elif k == "enter" and d["func"] == "_poll_loop":
            # control is back in the loop: the round of the latest call (the call itself plus what _run_poll_fn does with its
            # outcome - failing the futures a raising call was shown) is over
            if calls and open_call is None and "round_end" not in calls[-1]:
                calls[-1]["round_end"] = ev[0]
                calls[-1]["round_end_t"] = ev[1]
        elif k == "poll_call" and d["fn"] == PFN:
            if open_call is not None:
                bad("poll-calls-overlap", first=open_call["k"], second=d["k"])
            open_call = {"k": d["k"], "seq": ev[0], "t": ev[1], "results": d["results"], "end": None, "raised": None, "thread": ev[2], "yields": [],
                         "prep": last_enter if last_enter is not None else ev[0]}
            calls.append(open_call)
        elif k in ("poll_ret", "poll_raise") and d["fn"] == PFN:
            if open_call is not None:
                open_call["end"] = ev[0]
                open_call["end_t"] = ev[1]
                if k == "poll_raise":
                    open_call["raised"] = d["exc"]
                open_call = None
        elif k in ("poll_yield", "poll_yield_exc") and d["fn"] == PFN:
            if d["sub"] in futs:
                futs[d["sub"]]["yields"].append({"seq": ev[0], "call": d["k"], "kind": k, "value": d.get("value"), "exc": d.get("exc")})
    finals_pre = dict((o["op"][1], o["result"][1]) for o in ops if o["op"][0] == "state" and o["result"][0] == "ok")
    threads = set(c["thread"] for c in calls)
    if len(threads) > 1:
        bad("poll-fn-on-several-threads", threads=sorted(threads))
    nt = False
    for c in calls:
        shown = []
        for r in c["results"]:
            org = models.origin(r)
            shown.append(org[1] if org else None)
        if len(set(shown)) != len(shown):
            bad("duplicate-descriptor", call=c["k"], shown=shown)
        for fn, r in zip(shown, c["results"]):
            F = futs.get(fn)
            if F is None:
                bad("descriptor-for-unknown-future", call=c["k"], result=r)
                continue
            if F["ok"] is not True:
                bad("descriptor-for-failed-or-unfinished-delegate", call=c["k"], fut=F["name"])
            elif r != F["result"]:
                bad("descriptor-with-wrong-result", call=c["k"], fut=F["name"], result=r, expected=F["result"])
            # resolved before the call began?  (a yield only counts if it was the resolving call, i.e. the
            # future did not end cancelled)
            ended_cancelled = bool(finals_pre.get(F["name"], {}).get("cancelled"))
            for y in F["yields"]:
                if y["seq"] < c["seq"] and y["call"] != c["k"] and not ended_cancelled:
                    bad("descriptor-after-yield", call=c["k"], fut=F["name"], yielded_in_call=y["call"])
                    break
            for o in F["cancels"]:
                if o["result"][1] is True and o["ret_seq"] < c["seq"]:
                    # the executor snapshots its registry a few lines before it invokes the poll function;
                    # a cancel() that returns inside that window is not reflected (see DESIGN.md, known finding)
                    win = ":snapshot-window" if o["ret_seq"] > c["prep"] else ""
                    bad("descriptor-after-successful-cancel" + win, call=c["k"], fut=F["name"])
                    break
            if F["resolved_by_raise"] is not None and F["resolved_by_raise"] < c["seq"]:
                bad("descriptor-after-failed-by-raising-poll", call=c["k"], fut=F["name"])
        for fn, F in futs.items():
            if F["ok"] is True and F["comp_end"] is not None and F["comp_end"] < c["seq"] and F["submit_ret"] < c["seq"] and fn not in shown:
                touched = any(y["seq"] < c["seq"] for y in F["yields"]) or any(o["call_seq"] < c["seq"] for o in F["cancels"]) \
                    or (F["resolved_by_raise"] is not None and F["resolved_by_raise"] < c["seq"])
                if not touched:
                    win = ":snapshot-window" if max(F["comp_end"], F["submit_ret"]) > c["prep"] else ""
                    bad("descriptor-missing" + win, call=c["k"], fut=F["name"])
        # overlap => non-trivial
        for F in futs.values():
            if F["comp_start"] is not None and F["comp_end"] is not None and F["comp_start"] < (c["end"] or 10 ** 12) and F["comp_end"] > c["seq"]:
                nt = True
            for o in F["cancels"]:
                if o["call_seq"] < (c["end"] or 10 ** 12) and o["ret_seq"] > c["seq"]:
                    nt = True
        if c["raised"] is not None:
            for fn in shown:
                F = futs.get(fn)
                if F is not None and not any(y["seq"] < c["end"] for y in F["yields"]) and F["resolved_by_raise"] is None \
                        and not any(o["result"][1] is True and o["call_seq"] < c["end"] for o in F["cancels"]):
                    F["resolved_by_raise"] = c["end"]
                    F["raise_exc"] = c["raised"]
    # final outcomes: first yield wins; raising call fails what it was shown
    finals = dict((o["op"][1], o["result"][1]) for o in ops if o["op"][0] == "state" and o["result"][0] == "ok")
    for fn, F in futs.items():
        st = finals.get(F["name"])
        if st is None:
            continue
        cancelled_ok = [o for o in F["cancels"] if o["result"][1] is True]
        evs = []
        if F["yields"]:
            evs.append((F["yields"][0]["seq"], "yield"))
        if F["resolved_by_raise"] is not None:
            evs.append((F["resolved_by_raise"], "raise"))
        if F["ok"] is False:
            evs.append((F["comp_start"], "delegate-failed"))
        first = min(evs)[1] if evs else None
        if cancelled_ok:
            # a successful cancel racing with a resolution: whichever, but consistent with C02; skip outcome check
            continue
        if first == "yield":
            y = F["yields"][0]
            if y["kind"] == "poll_yield":
                if not (st["done"] and st.get("value") == y["value"]):
                    bad("outcome-is-not-first-yield", fut=F["name"], first_yield=y, state=st)
            else:
                if not (st["done"] and st.get("exc") == y["exc"] and st.get("exc_same") is True):
                    bad("outcome-is-not-first-yield", fut=F["name"], first_yield=y, state=st)
        elif first == "raise":
            if not (st["done"] and st.get("exc") == F["raise_exc"]):
                bad("raising-poll-did-not-fail-shown-future", fut=F["name"], state=st, exc=F["raise_exc"])
        elif first == "delegate-failed":
            if not (st["done"] and "exc" in st):
                bad("delegate-failure-not-propagated", fut=F["name"], state=st)
        else:
            if st["done"] and not st["cancelled"]:
                bad("resolved-without-yield", fut=F["name"], state=st)
    # promptness
    triggers = []
    for fn, F in futs.items():
        if F["ok"] is True and F["comp_t"] is not None and F["comp_end"] < 10 ** 6:
            triggers.append((F["comp_end"], F["comp_t"], "eligible:" + F["name"], F))
    for o in ops:
        if o["op"][0] == "notify" and o["result"][0] == "ok":
            triggers.append((o["call_seq"], o["ret_t"], "notify", None))
    t_end = [e[1] for e in s.events if e[3] == "settled"][0]
    for seq, t, what, F in triggers:
        if t > t_end - interval - EPS:
            continue
        if F is not None and (any(o["call_seq"] < seq + 10 ** 9 and o["ret_t"] <= t + EPS for o in F["cancels"])):
            continue  # cancelled at about the same time: no poll is owed
        # a call that starts after the trigger ... (the trigger may also fall inside a call in progress: then the NEXT call)
        after = [c for c in calls if c["seq"] > seq]
        inprog = [c for c in calls if c["seq"] < seq and (c.get("round_end", c["end"]) is None or c.get("round_end", c["end"]) > seq)]
        base_t = max([t] + [c.get("round_end_t", c.get("end_t", t)) for c in inprog])
        # a poll that began while the completing call was still running has seen the registration already
        covering = [c for c in calls if F is not None and F["comp_start"] is not None and F["comp_start"] < c["seq"] < seq and F["name"] + ".fn" in [(models.origin(r) or [0, 0])[1] for r in c["results"]]]
        if covering:
            continue
        if not after or after[0]["t"] > base_t + EPS:
            bad("poll-not-prompt:%s" % what.split(":")[0], trigger=what, at=t, next_poll=after[0]["t"] if after else None, interval=interval)
    # cancel function
    for ev in s.events:
        if ev[3] == "call" and ev[4]["fn"] == CFN:
            arg = ev[4]["args"][0] if ev[4]["args"] else None
            org = models.origin(arg)
            F = futs.get(org[1]) if org else None
            inside = [o for F2 in futs.values() for o in F2["cancels"] if o["call_seq"] < ev[0] < o["ret_seq"]]
            if F is None or arg != F["result"]:
                bad("cancel-fn-wrong-argument", arg=arg)
            elif F["ok"] is not True:
                bad("cancel-fn-called-outside-polling-stage", fut=F["name"])
            elif not inside:
                bad("cancel-fn-called-outside-cancel", fut=F["name"])
            elif ev[4].get("subject_state") in ("FINISHED", "CANCELLED", "CANCELLED_AND_NOTIFIED"):
                # consulted about a future that was already resolved at that instant (no longer in the polling stage)
                bad("cancel-fn-consulted-for-resolved-future", fut=F["name"], state=ev[4]["subject_state"])
    cf_rets = [(e[0], e[3], e[4]) for e in s.events if e[3] in ("ret", "raise") and e[4]["fn"] == CFN]
    for F in futs.values():
        for o in F["cancels"]:
            inner = [r for r in cf_rets if o["call_seq"] < r[0] < o["ret_seq"]]
            for r in inner:
                veto = r[1] == "raise" or not r[2].get("value")
                if veto and o["result"][1] is not False:
                    bad("cancel-fn-veto-ignored", fut=F["name"], cancel_fn=r[2], cancel_result=o["result"])
    # ... and it IS consulted: a cancel() that returned True for a future which was in the polling stage before the call began
    # (delegate finished successfully, registration complete, no yield and no earlier successful cancel) cannot have skipped it
    if has_cfn:
        cf_calls = [(e[0], e[4]) for e in s.events if e[3] == "call" and e[4]["fn"] == CFN]
        for F in futs.values():
            first_true = None
            for o in sorted(F["cancels"], key=lambda o: o["call_seq"]):
                if o["result"][0] != "ok" or o["result"][1] is not True:
                    continue
                if first_true is not None:
                    continue
                first_true = o
                if F["ok"] is not True or F["comp_end"] is None or F["comp_end"] > o["call_seq"]:
                    continue  # not (certainly) in the polling stage when the call began
                if any(y["seq"] < o["ret_seq"] for y in F["yields"]) or (F["resolved_by_raise"] is not None and F["resolved_by_raise"] < o["ret_seq"]):
                    continue  # being resolved at about the same time: the descriptor may legitimately be gone
                if not any(o["call_seq"] < seq < o["ret_seq"] and (d["args"] or [None])[0] == F["result"] for seq, d in cf_calls):
                    bad("cancel-true-without-consulting-the-cancel-function", fut=F["name"])
    info["nt"] = nt
    info["polls"] = len(calls)
    return viols, info


def account(ctx, case, viols, info, extra=()):
    if info.get("inconclusive"):
        ctx.inconclusive += 1
    cls = ["end:" + info["end"], "preempt:%d" % min(info.get("preemptions", 0), 3), "nt:%s" % info.get("nt"), "polls:%d" % min(info.get("polls", 0), 9)] + list(extra)
    ctx.case(case, bool(info.get("nt")), cls, sample={"case": case})
    new = False
    for v in viols:
        if ctx.violation(v["signature"], case, v["detail"]):
            new = True
    return new


def case_strategy():
    from hypothesis import strategies as st
    import gen

    @st.composite
    def cases(draw):
        n = draw(st.integers(1, 5))
        basekind = draw(st.sampled_from(["manual", "manual", "manual", "sync", "pool"]))
        base = {"kind": basekind} if basekind != "pool" else {"kind": "pool", "workers": 2}
        interval = draw(st.sampled_from([0.5, 1.0, 5.0]))
        per = {}
        for i in range(n):
            per["f%d.fn" % i] = draw(st.sampled_from([{"after": 1}, {"after": 2}, {"after": 3}, {"after": None}, {"after": 1, "then": ["exc", "E1"]},
                                                        {"after": 2, "then": ["res2", ["y", i], ["z", i]]}]))
        ncalls = draw(st.integers(1, 6))
        calls = [draw(st.sampled_from([{}, {}, {}, {"raise": "E2"}, {"ret": 0.25}, {"ret": "bogus"}, {"vsleep": 0.25}, {"op": ["notify", "ex"]},
                                       {"vsleep": 0.25, "raise": "E2"}, {"vsleep": 0.5, "raise": "E2"}])) for _ in range(ncalls)] + [{}]
        cancel = draw(st.one_of(st.none(), st.lists(st.sampled_from([["ret", True], ["ret", False], ["raise", "E3"], ["vsleep", 0.3, ["ret", True]], ["vsleep", 0.6, ["ret", False]]]), min_size=1, max_size=3)))
        nthreads = draw(st.integers(1, 2))
        threads = [[] for _ in range(nthreads)]
        for i in range(n):
            t = threads[i % nthreads]
            d = draw(st.sampled_from([0, 0, 0.25, 0.5]))
            if d:
                t.append(["sleep", d])
            t.append(sub("f%d" % i, draw(st.sampled_from([[["tag"]], [["tag"]], [["tag"]], [["raise", "E0"]]]))))
        if basekind == "manual":
            runner = []
            for _ in range(draw(st.integers(1, 6))):
                d = draw(st.sampled_from([0, 0.25, 0.5, 1.0]))
                if d:
                    runner.append(["sleep", d])
                runner.append(draw(st.sampled_from([["run", "ex", draw(st.integers(0, n - 1))], ["runall", "ex"]])))
            threads.append(runner)
        other = []
        for _ in range(draw(st.integers(0, 4))):
            d = draw(st.sampled_from([0, 0.25, 0.5, 1.0]))
            if d:
                other.append(["sleep", d])
            other.append(draw(st.sampled_from([["cancel", "f%d" % draw(st.integers(0, n - 1))], ["notify", "ex"]])))
        threads.append(other)
        prog = {"setup": [stack(base, interval, per, calls, cancel)], "threads": threads, "settle": 3 * interval + 2.0,
                "final": ([["runall", "ex"], ["sleep", 3 * interval + 1.0]] if basekind == "manual" else []) + [["state", "f%d" % i] for i in range(n)]}
        return {"prog": prog, "tape": draw(gen.tapes(8)), "clock": "exact", "max_vtime": 300}

    return cases()


def shards(tier, seed):
    cat = sorted(catalog())
    specs = [{"mode": "sweep", "entries": [n], "double": tier == "thorough"} for n in cat]
    n = 300 if tier == "quick" else 5000
    for i in range(12):
        specs.append({"mode": "random", "seed": seed * 1000 + i, "n": n})
    for i in range(4):
        specs.append({"mode": "machine", "seed": seed * 1000 + 500 + i, "n": 60 if tier == "quick" else 1500, "steps": 30 if tier == "quick" else 60})
    return specs


def run_shard(spec, ctx):
    if spec["mode"] == "sweep":
        cat = catalog()
        for name in spec["entries"]:
            ent = cat[name]
            extra = {"entry": name, "max_vtime": 300}
            if ent.get("clock"):
                extra["clock"] = ent["clock"]
            if ent.get("jump_points"):
                extra["jump_points"] = True
            if ent.get("instr_points"):
                extra["instr_points"] = ent["instr_points"]
            da = ent.get("double_always")
            if da:
                progs.sweep(ctx, ent["prog"], name, evaluate, account, double=True, picks=da["picks"], window=da["window"], extra=extra)
            else:
                progs.sweep(ctx, ent["prog"], name, evaluate, account, double=spec.get("double") and not ent.get("instr_points"), extra=extra)
    elif spec["mode"] == "machine":
        import machines
        machines.run_machine(machines.make_poll_machine, ctx, spec["seed"], spec["n"], spec["steps"])
    else:
        progs.random_search(ctx, spec, case_strategy(), evaluate, account)


def replay(case):
    if case.get("machine") == "poll":
        import machines
        return machines.replay_poll(case)
    viols, info = evaluate(case)
    return viols
