"""C18 - faults in user code stay with their own future; worker threads survive."""
import harness
import progs
import world
import models

PROPERTY = "C18"
LEVEL = "fault_enumeration"
RULE = (
    "cases = (stack of 1-4 layers over sync / thread-pool / manual bases; 2-4 submissions; one or two injected faults chosen from "
    "every user-code call site present in the stack - the submitted callable (at invocation k), map / error / flat_map function (for "
    "one chosen submission only), the poll function (at call k), the cancel function (also over a result object whose str() raises), "
    "a retry policy's should_retry or sleep_time (at attempt k), the throttle count callable (at call k), done-callbacks (first of "
    "several) - optionally combined with concurrent cancels; a probe submission after the faults; tape; both clock modes). "
    "Enumerated: each fault site x layer with every single pre-emption placement of a small program. Oracle: every future not touched "
    "by a fault has the outcome of the sequential reference model; a faulted future fails with exactly the injected exception object "
    "(or the fault is logged where the API says so: callbacks, policies, cancel function, count callable); the probe completes with "
    "its model outcome; no thread created by the stack ended with an exception; no library-internal exception (InvalidStateError, "
    "KeyError, AssertionError, AttributeError, TypeError...) escapes a Future method, a worker thread, or the standard library's "
    "callback invoker; every registered callback still runs exactly once. Non-trivial = a fault with at least one other submission in "
    "flight. Distinct = digest of the case."
)
ASSUMPTIONS = ["policy methods / count callables returning wrong TYPES are contract violations, not faults, and are not generated",
               "a directly-invoked callback's own exception reaching its registrant is allowed (documented by the suite)"]
INTERNAL = ("InvalidStateError", "KeyError", "AssertionError", "AttributeError", "TypeError", "IndexError", "NameError", "UnboundLocalError", "ValueError")


def evaluate(case):
    prog = case["prog"]
    s, w = progs.run_case(case)
    info = {"end": s.end_reason, "steps": s.steps, "preemptions": s.preemptions}
    viols = []
    site = case.get("site", "?")

    def bad(sig, **d):
        viols.append({"signature": "C18:%s:%s" % (sig, site), "detail": d})

    # threads: none may have died with an exception
    for t in getattr(s, "final_threads", []):
        if not t["client"] and t["exc"]:
            bad("worker-thread-died:%s:%s" % (t["name"].split("-")[0], t["exc"][0]), thread=t)
    # logs: library-internal exceptions that escaped into a worker / the stdlib callback invoker
    for rec in s.log_records:
        if rec[3] in INTERNAL:
            where = (rec[5] or ["?"])[-1].split(":")[0] + ":" + (rec[5] or ["?:?:?"])[-1].split(":")[-1]
            bad("internal-exception-logged:%s@%s" % (rec[3], where), record=rec)
        elif rec[0] == "concurrent.futures" and rec[1] >= 50:
            bad("pool-worker-crashed", record=rec)
    if s.end_reason != "done":
        if s.end_reason == "steps":
            info["inconclusive"] = True
        else:
            bad("run-ended-%s" % s.end_reason, stuck=getattr(s, "stuck_clients", None))
        return viols, info
    h = world.History(s, w)
    ops = h.oplist()
    stack = prog["setup"][0][2]
    model = models.StackModel("ex", stack)
    finals = {}
    for o in ops:
        if o["op"][0] == "state" and o["result"][0] == "ok":
            finals[o["op"][1]] = o["result"][1]
    # exceptions escaping Future methods / submit
    for o in ops:
        r = o["result"]
        if r and r[0] == "exc" and o["op"][0] in ("cancel", "add_cb", "state", "submit", "result"):
            if o["op"][0] == "add_cb" and r[1] == "Fault":
                continue
            if o["op"][0] == "result" and r[1] in ("Fault", "E0", "E1", "E2", "E3"):
                continue
            bad("exception-escaped-%s:%s" % (o["op"][0], r[1]), result=r[:3] + [r[-1]])
    cancelled_by_user = set(o["op"][1] for o in ops if o["op"][0] == "cancel" and o["result"] == ["ok", True])
    # "Attempting to cancel a future prevents any more retries, regardless of whether the cancel succeeds" (RetryExecutor docs):
    # after a refused cancel the outcome is that of whichever attempt was the last one, which this model does not predict
    has_retry = any(l["kind"] == "retry" for l in stack["layers"])
    cancel_refused = set(o["op"][1] for o in ops if o["op"][0] == "cancel" and o["result"] == ["ok", False]) if has_retry else set()
    poll_faults = [(e[4]["exc"]) for e in s.events if e[3] == "poll_raise"]
    nt = False
    for o in ops:
        if o["op"][0] != "submit" or o["result"] != ["ok", "submitted"]:
            continue
        f = o["op"][2]
        st = finals.get(f)
        if st is None:
            continue
        m = model.run(f, o["op"][3])
        exp = m["outcome"]
        if f in cancelled_by_user:
            if not (st["done"] and st["cancelled"]):
                bad("cancel-true-but-not-cancelled", fut=f, state=st)
            continue
        if st["cancelled"]:
            bad("unexpectedly-cancelled", fut=f, expected=exp.key())
            continue
        if not st["done"]:
            if exp.kind != "pending":
                bad("future-not-done:%s" % ("probe" if f == "probe" else "victim"), fut=f, expected=exp.key())
            continue
        # a raising poll call legitimately fails the futures it was shown
        if "exc" in st and st["exc"] in poll_faults:
            continue
        if f in cancel_refused:
            info["refused_cancel_on_retry"] = True
            continue
        if exp.kind == "v":
            if st.get("value") != exp.value:
                bad("wrong-outcome:%s" % ("probe" if f == "probe" else "bystander" if not case.get("faulted", {}).get(f) else "faulted"), fut=f, expected=exp.key(), got=st)
        elif exp.kind == "e":
            if "exc" not in st or st["exc"][1] != exp.etype or (exp.tag is not None and st["exc"][2] != exp.tag):
                bad("wrong-outcome:%s" % ("probe" if f == "probe" else "bystander" if not case.get("faulted", {}).get(f) else "faulted"), fut=f, expected=exp.key(), got=st)
            elif exp.tag is not None and st.get("exc_same") is not True:
                bad("fault-not-the-raised-object", fut=f, got=st)
    # callbacks: every registered one ran exactly once (a raising callback must not starve the others)
    regs = {}
    for o in ops:
        if o["op"][0] == "add_cb" and o["result"][0] in ("ok", "exc"):
            regs[o["op"][2]] = o["op"][1]
    runs = {}
    for ev in s.events:
        if ev[3] == "cb":
            runs[ev[4]["cb"]] = runs.get(ev[4]["cb"], 0) + 1
    for cb, f in regs.items():
        st = finals.get(f)
        if st and st["done"] and runs.get(cb, 0) != 1:
            bad("callback-ran-%d-times" % runs.get(cb, 0), cb=cb, fut=f)
    info["nt"] = len([o for o in ops if o["op"][0] == "submit"]) >= 3
    return viols, info


def account(ctx, case, viols, info, extra=()):
    if info.get("inconclusive"):
        ctx.inconclusive += 1
    cls = ["end:" + info["end"], "site:" + case.get("site", "?"), "preempt:%d" % min(info.get("preemptions", 0), 3)] + list(extra)
    if info.get("refused_cancel_on_retry"):
        cls.append("outcome-not-compared:refused-cancel-stops-retries")
    ctx.case(case, bool(info.get("nt")), cls, sample={"case": case})
    new = False
    for v in viols:
        if ctx.violation(v["signature"], case, v["detail"]):
            new = True
    return new


def case_strategy():
    from hypothesis import strategies as st
    import gen

    @st.composite
    def cases(draw):
        basekind = draw(st.sampled_from(["sync", "pool1", "pool2", "manual"]))
        base = {"sync": {"kind": "sync"}, "pool1": {"kind": "pool", "workers": 1}, "pool2": {"kind": "pool", "workers": 2}, "manual": {"kind": "manual"}}[basekind]
        kinds = draw(st.lists(st.sampled_from(["map", "flat_map", "retry", "poll", "throttle", "timeout", "cos"]), min_size=1, max_size=4))
        nsub = draw(st.integers(2, 4))
        fnames = ["f%d" % i for i in range(nsub)]
        victim = draw(st.sampled_from(fnames))
        sites = ["callable", "callback"]
        for k in kinds:
            sites += {"map": ["map-fn", "err-fn"], "flat_map": ["flat-fn"], "retry": ["should_retry", "sleep_time"], "poll": ["poll-fn", "cancel-fn"],
                      "throttle": ["count"]}.get(k, [])
        chosen = draw(st.lists(st.sampled_from(sites), min_size=1, max_size=2, unique=True))
        layers = []
        faulted = {}
        for i, k in enumerate(kinds):
            if k == "map":
                fn = [["raiseif", victim + ".fn", "Fault", ["app", "m"]]] if "map-fn" in chosen else [["app", "m"]]
                err = [["raiseif", victim + ".fn", "Fault", ["reraise"]]] if "err-fn" in chosen else draw(st.sampled_from([None, [["reraise"]]]))
                layers.append({"kind": "map", "fn": fn, "err": err})
            elif k == "flat_map":
                fn = [["raiseif", victim + ".fn", "Fault", ["futarg", "done"]]] if "flat-fn" in chosen else [["futarg", "done"]]
                layers.append({"kind": "flat_map", "fn": fn, "err": None})
            elif k == "retry":
                layers.append({"kind": "retry", "policy": {"type": "exc", "max_attempts": 3, "sleep": 0.25, "exponent": 1.0, "base": ["E0"]}})
            elif k == "poll":
                calls = [{}, {}]
                if "poll-fn" in chosen:
                    calls = [{}] * draw(st.integers(0, 2)) + [{"raise": "Fault"}] + [{}]
                    if draw(st.booleans()):
                        # the fault at a chosen virtual time instead of a call index (so that it can meet a cancel in progress)
                        calls = [{}, {"at": draw(st.sampled_from([0.1, 0.25, 0.5])), "raise": "Fault"}]
                cancel = [["raise", "Fault"]] if "cancel-fn" in chosen else draw(st.sampled_from([None, None, [["ret", True]], [["vsleep", 0.5, ["ret", True]]]]))
                L = {"kind": "poll", "interval": 0.25, "per_sub": dict((f + ".fn", {"after": draw(st.integers(1, 2))}) for f in fnames + ["probe"]), "calls": calls}
                if cancel:
                    L["cancel"] = cancel
                layers.append(L)
            elif k == "throttle":
                c = draw(st.sampled_from([1, 2, None]))
                if "count" in chosen:
                    c = {"script": [["ret", 2]] * draw(st.integers(1, 3)) + [["raise", "Fault"]] * draw(st.integers(1, 2)) + [["ret", 2]]}
                layers.append({"kind": "throttle", "count": c})
            elif k == "timeout":
                layers.append({"kind": "timeout", "t": 5000.0})
            else:
                layers.append({"kind": "cos"})
        threads = [[], []]
        for f in fnames:
            script = draw(st.sampled_from([[["tag"]], [["tag"]], [["raise", "E0"], ["tag"]], [["raise", "E2"]]]))
            spec = {"script": script}
            if f == victim and "callable" in chosen:
                kth = draw(st.integers(0, 1))
                spec["script"] = [["tag"]] * 0 + ([["raise", "E0"]] * kth if "retry" in kinds else []) + [["raise", "Fault"]]
            if "retry" in kinds and kinds[-1] == "retry" and f == victim and ("should_retry" in chosen or "sleep_time" in chosen):
                spec["script"] = [["raise", "E0"], ["raise", "E0"], ["tag"]]
                spec["retry_policy"] = {"type": "script", "should": ["raise"] if "should_retry" in chosen else [True, True, False],
                                        "sleep": ["raise"] if "sleep_time" in chosen else [0.25]}
            t = threads[draw(st.integers(0, 1))]
            t.append(["submit", "ex", f, spec])
            if "callback" in chosen and f == victim:
                t.append(["add_cb", f, "cbA_" + f, ["raise", "Fault"]])
                t.append(["add_cb", f, "cbB_" + f])
            else:
                t.append(["add_cb", f, "cb_" + f])
        if draw(st.integers(0, 2)) == 0 or "cancel-fn" in chosen:
            threads.append([["sleep", draw(st.sampled_from([0, 0.25, 0.5]))], ["cancel", draw(st.sampled_from(fnames))]])
        drain = []
        if basekind == "manual":
            for _ in range(8):
                drain += [["runall", "ex"], ["sleep", 0.5]]
            threads.append(drain)
        final = [["submit", "ex", "probe", {"script": [["tag"]]}], ["add_cb", "probe", "cb_probe"]]
        if basekind == "manual":
            for _ in range(4):
                final += [["sleep", 0.5], ["runall", "ex"]]
        final += [["sleep", 3.0]] + [["state", f] for f in fnames + ["probe"]]
        prog = {"setup": [["build", "ex", {"base": base, "layers": layers}]], "threads": threads, "settle": 6.0, "final": final}
        return {"prog": prog, "site": "+".join(sorted(chosen)), "faulted": {victim: True}, "tape": draw(gen.tapes(8)),
                "clock": draw(st.sampled_from(["exact", "exact", "preempt"])), "max_vtime": 300}

    return cases()


def catalog():
    """Small programs per fault site for the single-pre-emption sweep (fault || cancel || other submission)."""
    out = {}
    pool = {"kind": "pool", "workers": 1}

    def prog(layers, victim_spec, extra_thread=None, cbs=False, base=None):
        t0 = [["submit", "ex", "f0", victim_spec], ["add_cb", "f0", "cbA", ["raise", "Fault"]] if cbs else ["add_cb", "f0", "cbA"], ["add_cb", "f0", "cbB"]]
        t1 = [["submit", "ex", "f1", {"script": [["tag"]]}], ["add_cb", "f1", "cb1"]]
        threads = [t0, t1] + ([extra_thread] if extra_thread else [])
        return {"setup": [["build", "ex", {"base": base or pool, "layers": layers}]], "threads": threads, "settle": 3.0,
                "final": [["submit", "ex", "probe", {"script": [["tag"]]}], ["sleep", 2.0], ["state", "f0"], ["state", "f1"], ["state", "probe"]]}

    R = {"kind": "retry", "policy": {"type": "exc", "max_attempts": 3, "sleep": 0.25, "exponent": 1.0, "base": ["E0"]}}
    out["callable/retry"] = prog([R], {"script": [["raise", "E0"], ["raise", "Fault"]]}, [["sleep", 0.25], ["cancel", "f0"]])
    out["retry-on-success+cancel/retry"] = prog([R], {"script": [["tag"], ["tag"]], "retry_policy": {"type": "script", "should": [True, False], "sleep": [0.25]}},
                                                [["sleep", 0.25], ["cancel", "f0"], ["cancel", "f0"]])
    out["should_retry/retry"] = prog([R], {"script": [["raise", "E0"], ["tag"]], "retry_policy": {"type": "script", "should": ["raise"], "sleep": [0.25]}})
    out["sleep_time/retry"] = prog([R], {"script": [["raise", "E0"], ["tag"]], "retry_policy": {"type": "script", "should": [True, False], "sleep": ["raise"]}})
    # the same two below a layer whose futures are library futures that are already done when the retry layer hooks them
    # (sync base + map): the policy then runs on the retry executor's own thread, inside add_done_callback
    M = {"kind": "map", "fn": [["app", "m"]], "err": None}
    out["should_retry/sync+map+retry"] = prog([M, R], {"script": [["raise", "E0"], ["tag"]], "retry_policy": {"type": "script", "should": ["raise"], "sleep": [0.25]}},
                                              base={"kind": "sync"})
    out["sleep_time/sync+map+retry"] = prog([M, R], {"script": [["raise", "E0"], ["tag"]], "retry_policy": {"type": "script", "should": [True, False], "sleep": ["raise"]}},
                                            base={"kind": "sync"})
    # the poll function raises while a (slow, successful) cancel of one of the futures it was shown is in progress
    out["poll-fn+slow-cancel/poll"] = prog([{"kind": "poll", "interval": 0.25, "per_sub": {"f0.fn": {"after": None}, "f1.fn": {"after": 3}},
                                             "calls": [{}, {"at": 0.2, "raise": "Fault"}], "cancel": [["vsleep", 0.5, ["ret", True]]]}],
                                           {"script": [["tag"]]}, [["sleep", 0.1], ["cancel", "f0"]])
    # the callable ends with a BaseException that is not an Exception (SystemExit-like); the pool worker stores it on the future
    out["callable-baseexception/retry"] = prog([R], {"script": [["raise", "EB"]]})
    out["callable-baseexception/retry+map"] = prog([R, M], {"script": [["raise", "E0"], ["raise", "EB"]]})
    out["callback/map"] = prog([{"kind": "map", "fn": [["app", "m"]], "err": None}], {"script": [["tag"]]}, [["cancel", "f0"]], cbs=True)
    out["callback/retry+map"] = prog([R, {"kind": "map", "fn": [["app", "m"]], "err": None}], {"script": [["raise", "E0"], ["tag"]]}, None, cbs=True)
    out["map-fn/map+retry"] = prog([{"kind": "map", "fn": [["raiseif", "f0.fn", "Fault", ["app", "m"]]], "err": None}, R], {"script": [["tag"]]}, [["cancel", "f0"]])
    out["poll-fn/poll"] = prog([{"kind": "poll", "interval": 0.25, "per_sub": {"f0.fn": {"after": 2}, "f1.fn": {"after": 3}}, "calls": [{}, {"raise": "Fault"}, {}]}],
                               {"script": [["tag"]]}, [["sleep", 0.25], ["cancel", "f1"]])
    out["cancel-fn/poll"] = prog([{"kind": "poll", "interval": 0.25, "per_sub": {"f0.fn": {"after": 3}}, "cancel": [["raise", "Fault"]]}], {"script": [["tag"]]},
                                 [["sleep", 0.25], ["cancel", "f0"]])
    # a raising cancel function whose argument (the callable's result) cannot even be printed: cancel() is vetoed, nothing
    # escapes from it - neither into the user's thread nor into the timeout thread that issues the cancel
    unprintable = {"kind": "poll", "interval": 0.25, "per_sub": {"f0.fn": {"after": None}}, "cancel": [["raise", "Fault"]]}
    out["cancel-fn+unprintable-result/poll"] = prog([unprintable], {"script": [["badstr"]]}, [["sleep", 0.5], ["cancel", "f0"]])
    out["cancel-fn+unprintable-result/poll+timeout"] = prog([unprintable, {"kind": "timeout", "t": 0.5}], {"script": [["badstr"]]})
    out["count/throttle"] = prog([{"kind": "throttle", "count": {"script": [["ret", 1], ["ret", 1], ["raise", "Fault"], ["raise", "Fault"], ["ret", 1]]}}], {"script": [["vsleep", 0.25, ["tag"]]]})
    return out


def shards(tier, seed):
    cat = sorted(catalog())
    specs = [{"mode": "sweep", "entries": [n], "double": tier == "thorough"} for n in cat]
    n = 250 if tier == "quick" else 4000
    return specs + [{"mode": "random", "seed": seed * 1000 + i, "n": n} for i in range(10)]


def run_shard(spec, ctx):
    if spec["mode"] == "sweep":
        cat = catalog()
        for name in spec["entries"]:
            progs.sweep(ctx, cat[name], name, evaluate, account, double=spec.get("double"),
                        extra={"entry": name, "site": name.split("/")[0], "faulted": {"f0": True}, "max_vtime": 300})
    else:
        progs.random_search(ctx, spec, case_strategy(), evaluate, account, max_rounds=8)


def replay(case):
    viols, info = evaluate(case)
    return viols
