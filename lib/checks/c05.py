"""C05 - retry: exact attempt accounting, sequential attempts, exact back-off."""
import sys
import math

import harness

PROPERTY = "C05"
LEVEL = "exploration"
RULE = (
    "(P) ExceptionRetryPolicy arithmetic: Hypothesis-drawn (max_attempts, sleep, exponent, max_sleep, exception_base as class or list, "
    "attempt, outcome of the finished attempt) against the reference written from the docstring. (B) under the deterministic scheduler "
    "with the exact virtual clock: 1-4 concurrently retrying submissions, each with its own outcome script (<=6 outcomes over a small "
    "exception hierarchy and values) and its own policy (ExceptionRetryPolicy parameters, or a scripted custom policy incl. "
    "retry-on-success and raising policies), over sync / thread_pool(n>=submissions) / thread_pool(1); tape<=6. Oracle from the "
    "invocation log with virtual timestamps: attempts of one submission never overlap; start(k+1)-end(k) >= delay(k) always and == delay(k) "
    "(+-0.01) when workers are not scarce; policy consulted once per finished attempt with attempt=1,2,3.. on a done future; sleep_time "
    "consulted iff should_retry was true; invocation count and delays equal the reference; the returned future is not done and fires no "
    "callback before the final attempt ended, then carries that attempt's outcome (identity). Non-trivial = >=2 attempts and >=1 non-zero "
    "delay. Distinct = digest of the case."
)
ASSUMPTIONS = ["max_attempts<1, negative delays and exceptions with a falsy __bool__ are outside the documented domain and not generated",
               "exact clock mode: only waiting consumes virtual time"]

HIER = {"E0": ["E0", "Exception"], "E1": ["E1", "E0", "Exception"], "E2": ["E2", "Exception"], "E3": ["E3", "ValueError", "Exception"]}


# ----------------------------------------------------------------------------- (P)
def run_plain(spec, ctx):
    sys.path.insert(0, harness.REPO)
    from hypothesis import given, settings, seed, strategies as st, Phase, HealthCheck
    from concurrent.futures import Future
    from more_executors.retry import ExceptionRetryPolicy

    class E0(Exception):
        pass

    class E1(E0):
        pass

    class E2(Exception):
        pass

    class E3(ValueError):
        pass

    classes = {"E0": E0, "E1": E1, "E2": E2, "E3": E3, "Exception": Exception, "ValueError": ValueError}
    par = st.fixed_dictionaries({
        "max_attempts": st.one_of(st.integers(1, 8), st.sampled_from([40, 100, 1000])),
        "sleep": st.one_of(st.sampled_from([0, 0.25, 1.0, 2.5, 0.0005]), st.floats(0, 100, allow_nan=False)),
        "exponent": st.one_of(st.sampled_from([0.5, 1.0, 1.5, 2.0, 3.0, 1.05, 1.2]), st.floats(0.1, 5, allow_nan=False)),
        "max_sleep": st.one_of(st.sampled_from([0.5, 10, 120, 10 ** 6]), st.floats(0, 1000, allow_nan=False)),
        "base": st.one_of(st.sampled_from(["E0", "E1", "E2", "E3", "Exception", "ValueError"]),
                          st.lists(st.sampled_from(["E0", "E1", "E2", "E3", "ValueError"]), min_size=0, max_size=3)),
        "omit": st.sets(st.sampled_from(["max_attempts", "sleep", "exponent", "max_sleep", "base"])),
        "attempt": st.one_of(st.integers(1, 9), st.integers(10, 80), st.sampled_from([31, 32, 33, 34, 35, 63, 64, 65, 127, 128, 129])),  # (long retry series too)
        "outcome": st.sampled_from(["E0", "E1", "E2", "E3", "value", "falsy-value"]),
    })

    @seed(spec["seed"])
    @settings(max_examples=spec["n"], database=None, deadline=None, phases=[Phase.generate, Phase.shrink],
              suppress_health_check=list(HealthCheck), report_multiple_bugs=False)
    @given(par)
    def test(p):
        kw = {}
        if "max_attempts" not in p["omit"]:
            kw["max_attempts"] = p["max_attempts"]
        if "sleep" not in p["omit"]:
            kw["sleep"] = p["sleep"]
        if "exponent" not in p["omit"]:
            kw["exponent"] = p["exponent"]
        if "max_sleep" not in p["omit"]:
            kw["max_sleep"] = p["max_sleep"]
        if "base" not in p["omit"]:
            kw["exception_base"] = classes[p["base"]] if isinstance(p["base"], str) else [classes[b] for b in p["base"]]
        pol = ExceptionRetryPolicy(**kw)
        f = Future()
        if p["outcome"] in HIER:
            f.set_exception(classes[p["outcome"]]("x"))
        else:
            f.set_result(1 if p["outcome"] == "value" else 0)
        got_retry = bool(pol.should_retry(p["attempt"], f))
        got_sleep = pol.sleep_time(p["attempt"], f)
        # reference (docstring): defaults max_attempts=3, exponent=2.0, sleep=1.0, max_sleep=120, exception_base=Exception
        ma = kw.get("max_attempts", 3)
        bases = [p["base"]] if isinstance(p["base"], str) else list(p["base"])
        if "base" in p["omit"]:
            bases = ["Exception"]
        exp_retry = p["outcome"] in HIER and p["attempt"] < ma and any(b in HIER[p["outcome"]] for b in bases)
        exp_sleep = min(kw.get("sleep", 1.0) * kw.get("exponent", 2.0) ** (p["attempt"] - 1), kw.get("max_sleep", 120))
        nt = p["attempt"] >= 2 and exp_sleep > 0
        ctx.case(p, nt, ["plain", "retry:%s" % exp_retry], sample={"params": p, "should_retry": got_retry, "sleep_time": got_sleep})
        bad = None
        if got_retry != exp_retry:
            bad = "C05:policy-should_retry:%s-for-%s" % (got_retry, exp_retry)
        elif not math.isclose(got_sleep, exp_sleep, rel_tol=1e-9, abs_tol=1e-12):
            bad = "C05:policy-sleep_time"
        if bad and ctx.violation(bad, {"kind": "plain", "p": dict(p, omit=sorted(p["omit"]))}, {"got": [got_retry, got_sleep], "expected": [exp_retry, exp_sleep]}):
            raise harness.Violation(bad)

    try:
        test()
    except harness.Violation:
        pass


def replay_plain(p):
    ctx = harness.ShardCtx({}, [])
    # re-evaluate one parameter set
    sys.path.insert(0, harness.REPO)
    from concurrent.futures import Future
    from more_executors.retry import ExceptionRetryPolicy
    classes = {"E0": type("E0", (Exception,), {}), "Exception": Exception, "ValueError": ValueError}
    classes["E1"] = type("E1", (classes["E0"],), {})
    classes["E2"] = type("E2", (Exception,), {})
    classes["E3"] = type("E3", (ValueError,), {})
    omit = set(p["omit"])
    kw = {}
    for k in ("max_attempts", "sleep", "exponent", "max_sleep"):
        if k not in omit:
            kw[k] = p[k]
    if "base" not in omit:
        kw["exception_base"] = classes[p["base"]] if isinstance(p["base"], str) else [classes[b] for b in p["base"]]
    pol = ExceptionRetryPolicy(**kw)
    f = Future()
    if p["outcome"] in HIER:
        f.set_exception(classes[p["outcome"]]("x"))
    else:
        f.set_result(1 if p["outcome"] == "value" else 0)
    got_retry = bool(pol.should_retry(p["attempt"], f))
    got_sleep = pol.sleep_time(p["attempt"], f)
    ma = kw.get("max_attempts", 3)
    bases = ["Exception"] if "base" in omit else ([p["base"]] if isinstance(p["base"], str) else list(p["base"]))
    exp_retry = p["outcome"] in HIER and p["attempt"] < ma and any(b in HIER[p["outcome"]] for b in bases)
    exp_sleep = min(kw.get("sleep", 1.0) * kw.get("exponent", 2.0) ** (p["attempt"] - 1), kw.get("max_sleep", 120))
    out = []
    if got_retry != exp_retry:
        out.append({"signature": "C05:policy-should_retry:%s-for-%s" % (got_retry, exp_retry), "detail": {}})
    elif not math.isclose(got_sleep, exp_sleep, rel_tol=1e-9, abs_tol=1e-12):
        out.append({"signature": "C05:policy-sleep_time", "detail": {"got": got_sleep, "expected": exp_sleep}})
    return out


# ----------------------------------------------------------------------------- (B)
def evaluate(case):
    import progs
    import world
    import models
    s, w = progs.run_case(case)
    info = {"end": s.end_reason, "steps": s.steps, "preemptions": s.preemptions}
    viols = []

    def bad(sig, **d):
        viols.append({"signature": "C05:" + sig, "detail": d})

    if s.end_reason != "done":
        if s.end_reason == "steps":
            info["inconclusive"] = True
        else:
            bad("run-ended-%s" % s.end_reason, stuck=getattr(s, "stuck_clients", None))
        return viols, info
    prog = case["prog"]
    stack = prog["setup"][0][2]
    model = models.StackModel("ex", stack)
    scarce = case.get("scarce", False)
    h = world.History(s, w)
    finals = dict((o["op"][1], o["result"]) for o in h.oplist("state") if o["call_seq"] > [e[0] for e in s.events if e[3] == "settled"][0])
    early = [(o["op"][1], o["call_seq"], o["result"]) for o in h.oplist("state")]
    subs = dict((o["op"][2], o) for o in h.oplist("submit"))
    nt = False
    for fname, o in sorted(subs.items()):
        spec = o["op"][3]
        if o["result"] != ["ok", "submitted"]:
            bad("submit-raised:%s" % o["result"][1], fut=fname, result=o["result"])
            continue
        m = model.run(fname, spec)
        fn = fname + ".fn"
        starts = [(e[0], e[1]) for e in s.events if e[3] == "call" and e[4]["fn"] == fn]
        ends = [(e[0], e[1]) for e in s.events if e[3] in ("ret", "raise") and e[4]["fn"] == fn]
        if len(starts) != m["invocations"]:
            bad("invocation-count:%s" % ("more" if len(starts) > m["invocations"] else "fewer"), fut=fname, expected=m["invocations"], got=len(starts), policy=spec.get("retry_policy"))
            continue
        if len(ends) != len(starts):
            bad("attempt-did-not-end", fut=fname)
            continue
        for k in range(len(starts) - 1):
            if starts[k + 1][0] < ends[k][0]:
                bad("attempts-overlap", fut=fname, k=k)
            gap = starts[k + 1][1] - ends[k][1]
            d = m["delays"][k]
            if gap < d - 1e-3:
                bad("retry-too-early", fut=fname, attempt=k + 1, delay=d, gap=gap)
            elif not scarce and gap > d + 1e-2:
                bad("retry-too-late", fut=fname, attempt=k + 1, delay=d, gap=gap)
        if len(starts) >= 2 and any(d > 0 for d in m["delays"]):
            nt = True
        # policy consultations
        pname = fname + ".policy"
        should = [e for e in s.events if e[3] == "policy_should" and e[4]["policy"] == pname]
        sleeps = [e for e in s.events if e[3] == "policy_sleep" and e[4]["policy"] == pname]
        if [e[4]["attempt"] for e in should] != list(range(1, len(starts) + 1)):
            bad("policy-attempt-numbers", fut=fname, got=[e[4]["attempt"] for e in should], attempts=len(starts))
        if not all(e[4]["fdone"] for e in should):
            bad("policy-given-unfinished-future", fut=fname)
        for k, e in enumerate(should):
            if k < len(ends) and e[0] < ends[k][0]:
                bad("policy-consulted-before-attempt-finished", fut=fname, attempt=k + 1)
        want_sleep = [e[4]["attempt"] for e in should if e[4]["value"] is True]
        if [e[4]["attempt"] for e in sleeps] != want_sleep:
            bad("sleep_time-consultations", fut=fname, got=[e[4]["attempt"] for e in sleeps], expected=want_sleep)
        # not done / no callback before the final attempt ended
        last_end = ends[-1][0]
        for ev in s.events:
            if ev[3] == "cb" and ev[4]["fut"] == fname and ev[0] < last_end:
                bad("callback-before-final-attempt-ended", fut=fname)
        for (f2, seq, res) in early:
            if f2 == fname and seq < last_end and res[0] == "ok" and res[1]["done"]:
                bad("done-before-final-attempt-ended", fut=fname, sample=res[1])
        # final outcome
        st = finals.get(fname)
        exp = m["outcome"]
        if not st or st[0] != "ok" or not st[1]["done"]:
            bad("not-done-after-final-attempt", fut=fname, state=st)
        else:
            st = st[1]
            if exp.kind == "v" and st.get("value") != exp.value:
                bad("wrong-final-value", fut=fname, expected=exp.key(), got=st)
            if exp.kind == "e" and (st.get("exc", [None, None, None])[1:] != [exp.etype, exp.tag] or st.get("exc_same") is not True):
                bad("wrong-final-exception", fut=fname, expected=exp.key(), got=st)
    info["nt"] = nt
    return viols, info


def account(ctx, case, viols, info, extra=()):
    if info.get("inconclusive"):
        ctx.inconclusive += 1
    cls = ["engine", "end:" + info["end"], "base:" + case["prog"]["setup"][0][2]["base"]["kind"], "scarce:%s" % case.get("scarce"),
           "preempt:%d" % min(info.get("preemptions", 0), 3)] + list(extra)
    ctx.case(case, bool(info.get("nt")), cls, sample={"case": case})
    new = False
    for v in viols:
        if ctx.violation(v["signature"], case, v["detail"]):
            new = True
    return new


def case_strategy():
    from hypothesis import strategies as st
    import gen
    import models

    instant = st.one_of(st.just(["tag"]), st.sampled_from(["E0", "E1", "E2", "E3"]).map(lambda e: ["raise", e]))
    # (attempts that take time: the delay counts from the END of an attempt)
    outcome = st.one_of(instant, instant, st.tuples(st.sampled_from([0.25, 0.5]), instant).map(lambda t: ["vsleep", t[0], t[1]]))
    exc_policy = st.builds(
        lambda m, s, e, ms, b: {"type": "exc", "max_attempts": m, "sleep": s, "exponent": e, "max_sleep": ms, "base": b},
        st.integers(1, 6), st.sampled_from([0, 0.25, 0.5, 1.0, 2.0, 4.0]), st.sampled_from([0.5, 1.0, 1.5, 2.0, 3.0]),
        st.sampled_from([0.75, 3.0, 120]), st.sampled_from([["E0"], ["E1"], ["E0", "E3"], ["E2"], ["E0", "E2", "E3"], ["Exception"]]))
    script_policy = st.builds(
        lambda sh, sl: {"type": "script", "should": sh, "sleep": sl},
        st.lists(st.sampled_from([True, True, True, False, "raise"]), min_size=1, max_size=5).map(lambda l: l + [False]),
        st.lists(st.sampled_from([0, 0.25, 0.5, 1.0, 2.5, "raise"]), min_size=1, max_size=5))

    @st.composite
    def cases(draw):
        nsub = draw(st.integers(1, 4))
        basekind = draw(st.sampled_from(["sync", "pool-wide", "pool-1"]))
        base = {"kind": "sync"} if basekind == "sync" else {"kind": "pool", "workers": nsub if basekind == "pool-wide" else 1}
        stack = {"base": base, "layers": [{"kind": "retry", "policy": {"type": "exc", "max_attempts": 1}}]}
        model = models.StackModel("ex", stack)
        nthreads = draw(st.integers(1, min(3, nsub)))
        threads = [[] for _ in range(nthreads)]
        total = 0.0
        names = []
        for i in range(nsub):
            f = "f%d" % i
            names.append(f)
            spec = {"script": draw(st.lists(outcome, min_size=1, max_size=6)), "retry_policy": draw(st.one_of(exc_policy, exc_policy, script_policy))}
            total += model.run(f, spec)["elapsed"]
            threads[i % nthreads].extend([["submit", "ex", f, spec], ["add_cb", f, "cb_" + f]])
        sampler = []
        for _ in range(draw(st.integers(0, 3))):
            sampler.append(["sleep", draw(st.sampled_from([0.1, 0.3, 0.6, 1.1]))])
            sampler.append(["state", draw(st.sampled_from(names))])
        threads.append(sampler)
        prog = {"setup": [["build", "ex", stack]], "threads": threads, "settle": total + 2.0, "final": [["state", n] for n in names]}
        timed = any(b[0] == "vsleep" for t in threads for op in t if op[0] == "submit" for b in op[3]["script"])
        # (a sync base runs callables on the retry thread itself: an attempt that takes time holds up the other submissions)
        return {"prog": prog, "tape": draw(gen.tapes(6)), "clock": "exact",
                "scarce": nsub > 1 and (basekind == "pool-1" or (basekind == "sync" and timed))}

    return cases()


def catalog():
    """Small retry programs for the single-pre-emption sweep (completion callback || submit thread)."""
    out = {}

    def prog(base, subs, extra_threads=()):
        threads = [[]]
        total = 0.0
        for i, (script, pol) in enumerate(subs):
            f = "f%d" % i
            threads[0].extend([["submit", "ex", f, {"script": script, "retry_policy": pol}], ["add_cb", f, "cb_" + f]])
        for t in extra_threads:
            threads.append(t)
        return {"setup": [["build", "ex", {"base": base, "layers": [{"kind": "retry", "policy": {"type": "exc", "max_attempts": 1}}]}]],
                "threads": threads, "settle": 6.0,
                "final": [["state", "f%d" % i] for i in range(len(subs))] + [["state", op[2]] for t in extra_threads for op in t if op[0] == "submit"]}

    P0 = {"type": "exc", "max_attempts": 4, "sleep": 0, "exponent": 1.0, "base": ["E0"]}
    P5 = {"type": "exc", "max_attempts": 4, "sleep": 0.5, "exponent": 2.0, "base": ["E0"]}
    PS = {"type": "script", "should": [True, True, False], "sleep": [0, 0.25]}
    fail2 = [["raise", "E0"], ["raise", "E0"], ["tag"]]
    for bname, base in (("pool1", {"kind": "pool", "workers": 1}), ("pool2", {"kind": "pool", "workers": 2}), ("sync", {"kind": "sync"})):
        out["zero-delay/" + bname] = {"prog": prog(base, [(fail2, P0)], [[["submit", "ex", "g0", {"script": [["tag"]], "retry_policy": P0}]]])}
        out["zero-delay-two/" + bname] = {"prog": prog(base, [(fail2, P0), ([["raise", "E0"], ["tag"]], P0)])}
        out["backoff/" + bname] = {"prog": prog(base, [(fail2, P5), ([["raise", "E0"], ["tag"]], PS)])}
    # three (four) submissions waiting for their retry at once, due in the order low, high, middle(, lower): the submit thread
    # must wake for the EARLIEST of them each time
    once = [["raise", "E0"], ["tag"]]

    def sp(d):
        return {"type": "script", "should": [True, False], "sleep": [d]}
    wide = {"kind": "pool", "workers": 4}
    out["waiting/low-high-middle"] = {"prog": prog(wide, [(once, sp(0.5)), (once, sp(2.0)), (once, sp(1.25))])}
    out["waiting/high-low-middle-lower"] = {"prog": prog(wide, [(once, sp(2.0)), (once, sp(1.0)), (once, sp(1.5)), (once, sp(0.75))])}
    out["waiting/descending"] = {"prog": prog(wide, [(once, sp(2.0)), (once, sp(1.5)), (once, sp(1.0)), (once, sp(0.5))])}
    # one small program once more with EVERY bytecode instruction of retry.py as a scheduling point
    out["instr/zero-delay-two-sync"] = dict(out["zero-delay-two/sync"], instr_points=["retry.py"])
    return out


def shards(tier, seed):
    n = 250 if tier == "quick" else 4000
    specs = [{"mode": "plain", "seed": seed * 1000 + 900 + i, "n": 5000 if tier == "quick" else 60000} for i in range(4)]
    specs += [{"mode": "random", "seed": seed * 1000 + i, "n": n} for i in range(12)]
    specs += [{"mode": "sweep", "entries": [name], "double": tier == "thorough"} for name in sorted(catalog())]
    return specs


def run_shard(spec, ctx):
    if spec["mode"] == "plain":
        run_plain(spec, ctx)
    elif spec["mode"] == "sweep":
        import progs
        cat = catalog()
        for name in spec["entries"]:
            extra = {"entry": name, "scarce": name.endswith("pool1")}
            if cat[name].get("instr_points"):
                extra["instr_points"] = cat[name]["instr_points"]
            progs.sweep(ctx, cat[name]["prog"], name, evaluate, account, double=spec.get("double") and not cat[name].get("instr_points"), extra=extra)
    else:
        import progs
        progs.random_search(ctx, spec, case_strategy(), evaluate, account)


def replay(case):
    if case.get("kind") == "plain":
        return replay_plain(case["p"])
    viols, info = evaluate(case)
    return viols
