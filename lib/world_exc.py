"""Exception classes usable without loading the engine."""


class E0(Exception):
    pass


class E1(E0):
    pass


class E2(Exception):
    pass


class AttrErr(AttributeError):
    pass
