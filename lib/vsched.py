"""vsched - deterministic scheduler + virtual clock for real Python threads.

The library under test (more_executors from /repo, unmodified) runs on real OS
threads, but only one *controlled* thread holds the baton at any time.  The
baton is handed over at scheduling points:

  * every operation on a controlled primitive (Lock, RLock, Condition, Event,
    Semaphore, SimpleQueue, Thread.start/join, thread end),
  * every source line executed inside more_executors/_impl (sys.monitoring
    LINE events, tool id 4).

Time is virtual: monotonic() ticks by 1e-7 s per read and jumps to the
earliest pending deadline only when no controlled thread is enabled.

All interaction with library objects must happen on controlled threads; the
main (Hypothesis) thread only spawns clients, runs the scheduler, and reads
the recorded history afterwards.
"""
import sys
import os
import threading
import _thread
import time
import gc
import logging
import collections
import queue as _queue_mod
import types
import traceback

_real_allocate = _thread.allocate_lock
_get_ident = _thread.get_ident
_RealThread = threading.Thread
_RealLock = threading.Lock
_RealRLock = threading.RLock
_RealEvent = threading.Event
_RealCondition = threading.Condition
_RealSemaphore = threading.Semaphore
_RealSimpleQueue = _queue_mod.SimpleQueue
_real_monotonic = time.monotonic
_real_sleep = time.sleep

NEVER = 1e6  # a timeout further away than this counts as "no timeout"
TICK = 1e-7
WATCHDOG_S = float(os.environ.get("VSCHED_WATCHDOG", "30"))
TOOL_ID = 4

CURRENT = None  # the active Scheduler, if any


class SchedAbort(BaseException):
    """Raised inside controlled threads to unwind them at the end of a run."""


class HarnessError(Exception):
    """The engine itself failed (watchdog, leaked thread...). Never a verdict."""


def cur_sched():
    s = CURRENT
    if s is not None and _get_ident() in s.by_ident:
        return s
    return None


class VThread(object):
    def __init__(self, sched, tid, name, client):
        self.sched = sched
        self.tid = tid
        self.name = name
        self.client = client
        self.sem = _real_allocate()
        self.sem.acquire()
        self.blocked_on = None
        self.deadline = None
        self.timed_out = False
        self.enabled = True
        self.done = False
        self.started = False
        self.exc = None  # (type name, repr) if the target ended by exception
        self.last_run = 0
        self.block_seq = 0
        self.loc = None  # last library (file, function, line)
        self.real = None
        self.ident = None
        self.holding = []
        self.label = None  # free-form: what the client is doing

    def __repr__(self):
        return "<VThread %d %s>" % (self.tid, self.name)


class Scheduler(object):
    def __init__(
        self,
        tape=(),
        block_tape=(),
        clock_mode="exact",
        max_steps=400000,
        max_vtime=1e5,
        line_points=True,
    ):
        self.threads = []
        self.by_ident = {}
        self.cur = None
        self.now = 0.0
        self.steps = 0
        self.tape = [tuple(x) for x in tape]
        self.tpos = 0
        self.run_left = None
        self.block_tape = list(block_tape)
        self.bpos = 0
        self.clock_mode = clock_mode
        self.max_steps = max_steps
        self.max_vtime = max_vtime
        self.line_points = line_points
        self.main_sem = _real_allocate()
        self.main_sem.acquire()
        self.aborting = False
        self.reason = None
        self.seq = 0
        self.events = []
        self.ev_steps = []
        self.preemptions = 0
        self.timer_preemptions = 0
        self._lru = 0
        self._bseq = 0
        self.deadlock = None
        self.log_records = []
        self.lock_edges = {}
        self.track_lock_order = False
        self.timers_fired = 0
        self.contended = 0
        self._since_switch = 0
        self.fair_quantum = 2500
        self.fair_switches = 0
        self.preempt_horizon = 10.0
        self.trace_funcs = None  # function names whose entry is recorded as an 'enter' event
        self.point_hook = None  # optional callable(sched, vthread) at every point

    # ------------------------------------------------------------------ util
    def me(self):
        return self.by_ident.get(_get_ident())

    def record(self, kind, **data):
        self.seq += 1
        cur = self.cur
        ev = (self.seq, self.now, cur.name if cur is not None else "main", kind, data)
        self.events.append(ev)
        self.ev_steps.append(self.steps)  # (how many scheduling points had been passed when this was recorded)
        return self.seq

    def _new_thread(self, name, target, args, kwargs, client):
        vt = VThread(self, len(self.threads), name, client)
        self.threads.append(vt)
        self._bseq += 1
        vt.block_seq = self._bseq
        rt = _RealThread(
            target=self._body, args=(vt, target, args, kwargs), name="v:" + name
        )
        rt.daemon = True
        vt.real = rt
        rt.start()
        return vt

    def _body(self, vt, target, args, kwargs):
        vt.ident = _get_ident()
        self.by_ident[vt.ident] = vt
        vt.sem.acquire()
        vt.started = True
        try:
            if not self.aborting:
                target(*args, **kwargs)
        except SchedAbort:
            pass
        except BaseException as e:  # noqa
            if not self.aborting:
                vt.exc = (type(e).__name__, repr(e)[:300], _short_tb(e))
        finally:
            target = args = kwargs = None
            self._thread_end(vt)

    def _thread_end(self, vt):
        vt.done = True
        vt.enabled = False
        self.by_ident.pop(vt.ident, None)
        if self.aborting:
            return
        self.wake(vt)
        nxt = self._choose_enabled()
        if nxt is not None:
            self._give(nxt)
        else:
            self.reason = "quiescent"
            self.cur = None
            self.main_sem.release()

    def _give(self, nxt):
        self._since_switch = 0
        self._lru += 1
        nxt.last_run = self._lru
        self.cur = nxt
        nxt.sem.release()

    def _choose_enabled(self, exclude=None):
        en = [t for t in self.threads if t.enabled and not t.done and t is not exclude]
        if not en:
            return None
        if self.bpos < len(self.block_tape):
            c = self.block_tape[self.bpos]
            self.bpos += 1
            en.sort(key=lambda t: t.tid)
            return en[c % len(en)]
        return min(en, key=lambda t: (t.last_run, t.tid))

    # ------------------------------------------------- controlled-side core
    def point(self):
        """A scheduling point reached by the current controlled thread."""
        if self.aborting:
            return
        me = self.cur
        self.steps += 1
        if self.point_hook is not None:
            self.point_hook(self, me)
        if self.steps > self.max_steps:
            self._end("steps")
        # fairness: a thread that spins without ever blocking (e.g. wait() on
        # an event that is already set) is descheduled after a quantum, as any
        # real scheduler would do.
        self._since_switch += 1
        if self._since_switch > self.fair_quantum:
            nxt = self._choose_enabled(exclude=me)
            self._since_switch = 0
            if nxt is not None:
                self.fair_switches += 1
                self._switch_to(nxt)
                return
        if self.tpos >= len(self.tape):
            return
        if self.run_left is None:
            self.run_left = self.tape[self.tpos][0]
        if self.run_left > 0:
            self.run_left -= 1
            return
        choice = self.tape[self.tpos][1]
        self.tpos += 1
        self.run_left = None
        cands = [t for t in self.threads if t.enabled and not t.done and t is not me]
        if self.clock_mode == "preempt":
            # only timers due "soon": far-away deadlines are the harness' way of
            # saying "never fires in this program"
            timed = [
                t
                for t in self.threads
                if not t.done
                and not t.enabled
                and not t.client  # library timers only: cutting a client's own sleep short would starve the workers
                and t.deadline is not None
                and t.deadline <= self.now + self.preempt_horizon
            ]
            if timed:
                cands.append(min(timed, key=lambda t: (t.deadline, t.tid)))
        if not cands:
            return
        nxt = cands[choice % len(cands)]
        if not nxt.enabled:
            self._fire(nxt)
            self.timer_preemptions += 1
        self.preemptions += 1
        self._switch_to(nxt)

    def _fire(self, t):
        self.now = max(self.now, t.deadline)
        t.timed_out = True
        t.enabled = True
        t.deadline = None
        t.blocked_on = None
        self.timers_fired += 1

    def _switch_to(self, nxt):
        me = self.cur
        self._give(nxt)
        me.sem.acquire()
        if self.aborting:
            raise SchedAbort()

    def block(self, obj, timeout=None):
        """Park the current thread on obj. Returns False if the virtual timeout expired."""
        if self.aborting:
            raise SchedAbort()
        me = self.cur
        me.blocked_on = obj
        me.timed_out = False
        me.enabled = False
        self._bseq += 1
        me.block_seq = self._bseq
        if timeout is None or timeout > NEVER:
            me.deadline = None
            cyc = self._closes_cycle(me)
            if cyc:
                self.deadlock = cyc
                # summarise now: _end() unwinds this thread while the main thread would be reading its state
                try:
                    self._snap = (self.thread_summary(), self.blocked_clients())
                except Exception:
                    self._snap = None
                me.enabled = True
                self._end("deadlock")
        else:
            me.deadline = self.now + max(timeout, 0.0)
        nxt = self._choose_enabled()
        if nxt is not None:
            self._give(nxt)
        else:
            self.reason = "quiescent"
            self.cur = None
            self.main_sem.release()
        me.sem.acquire()
        if self.aborting:
            raise SchedAbort()
        return not me.timed_out

    def wake(self, obj, n=None):
        ws = [t for t in self.threads if t.blocked_on is obj and not t.done]
        if not ws:
            return 0
        ws.sort(key=lambda t: t.block_seq)
        k = 0
        for t in ws:
            if n is not None and k >= n:
                break
            t.blocked_on = None
            t.deadline = None
            t.enabled = True
            k += 1
        return k

    def _end(self, reason):
        self.reason = reason
        self.aborting = True
        self.main_sem.release()
        raise SchedAbort()

    def _closes_cycle(self, me):
        chain = []
        t = me
        seen = set()
        while True:
            obj = t.blocked_on
            if isinstance(obj, VThread):
                owner = obj
                what = "join(%s)" % obj.name
            else:
                owner = getattr(obj, "owner", None)
                what = getattr(obj, "site", type(obj).__name__)
            if not isinstance(owner, VThread):
                return None
            chain.append(
                {"thread": t.name, "waits_for": what, "held_by": owner.name, "stack": None, "_vt": t}
            )
            if owner is me:
                frames = sys._current_frames()
                for c in chain:
                    vt = c.pop("_vt")  # (several threads may share a name)
                    if vt.ident in frames:
                        c["stack"] = _fmt_stack(frames[vt.ident], limit=30)
                return chain
            if owner.done or owner.enabled or owner.deadline is not None:
                return None
            if owner in seen:
                return None
            seen.add(owner)
            t = owner

    def sleep(self, d):
        self.point()
        if d > 0:
            self.block(("sleep", self.me().tid), d)

    def monotonic(self):
        self.now += TICK
        return self.now

    def spawn_client(self, name, fn, *args, **kwargs):
        """Start another client thread from a controlled thread."""
        vt = self._new_thread(name, fn, args, kwargs, client=True)
        self.point()
        return vt

    def join_client(self, vt, timeout=None):
        self.point()
        if not vt.done:
            self.block(vt, timeout)
        return vt.done

    # ----------------------------------------------------------- main side
    def spawn(self, name, fn, *args, **kwargs):
        assert cur_sched() is None, "spawn() is for the uncontrolled main thread"
        return self._new_thread(name, fn, args, kwargs, client=True)

    def _wait_main(self):
        if not self.main_sem.acquire(timeout=WATCHDOG_S):
            raise HarnessError("watchdog: scheduler did not return\n" + self.dump())

    def run(self):
        """Run controlled threads until none is enabled (or a limit/deadlock)."""
        nxt = self._choose_enabled()
        if nxt is None:
            return "quiescent"
        self.reason = None
        self._give(nxt)
        self._wait_main()
        return self.reason

    def fire_next_timer(self, limit=None):
        timed = [
            t for t in self.threads if not t.done and not t.enabled and t.deadline is not None
        ]
        if not timed:
            return False
        t = min(timed, key=lambda t: (t.deadline, t.tid))
        if limit is not None and t.deadline > limit:
            return False
        # every timer due at that same instant fires together: the threads
        # become runnable at the same virtual time and may then interleave
        d = t.deadline
        for u in sorted(timed, key=lambda t: t.tid):
            if u.deadline <= d + 1e-9:
                self._fire(u)
        return True

    def advance(self, d):
        """Let virtual time pass by d, firing all timers due (step-wise mode)."""
        target = self.now + d
        while True:
            r = self.run()
            if r != "quiescent":
                return r
            if not self.fire_next_timer(limit=target):
                break
        self.now = max(self.now, target)
        return "quiescent"

    def run_batch(self):
        """Run until all client threads are done. Returns the end reason:
        done | deadlock | stuck | steps | vtime"""
        while True:
            r = self.run()
            if r != "quiescent":
                return r
            if all(t.done for t in self.threads if t.client):
                return "done"
            if self.now > self.max_vtime:
                return "vtime"
            if not self.fire_next_timer():
                return "stuck"

    def abort(self):
        """Unwind every controlled thread; no OS thread outlives the case."""
        self.aborting = True
        for t in list(self.threads):
            if not t.done:
                try:
                    t.sem.release()
                except RuntimeError:
                    pass
        deadline = _real_monotonic() + WATCHDOG_S
        for t in list(self.threads):
            if t.real is not None:
                t.real.join(max(0.0, deadline - _real_monotonic()))
                if t.real.is_alive():
                    raise HarnessError("thread leak: %r\n%s" % (t, self.dump()))

    def blocked_clients(self):
        out = []
        frames = sys._current_frames()
        for t in self.threads:
            if t.client and not t.done:
                out.append(
                    {
                        "thread": t.name,
                        "label": t.label,
                        "blocked_on": _describe(t.blocked_on),
                        "stack": _fmt_stack(frames.get(t.ident)),
                    }
                )
        return out

    def thread_summary(self):
        out = []
        frames = None
        for t in self.threads:
            d = {
                "name": t.name,
                "tid": t.tid,
                "client": t.client,
                "done": t.done,
                "exc": t.exc,
                "blocked_on": None if t.done else _describe(t.blocked_on),
                "loc": t.loc,
            }
            if not t.done and (isinstance(t.blocked_on, (CLock, CRLock)) or (t.loc and t.loc[1] == "_block_until_ready")):
                # waiting for a mutex (or parked in a blocking submit) at the end of a run: say which one and from where
                if frames is None:
                    frames = sys._current_frames()
                d["blocked_id"] = id(t.blocked_on)
                d["stack"] = _fmt_stack(frames.get(t.ident), limit=30)
                fr = frames.get(t.ident)
                while fr is not None:
                    if fr.f_code.co_name == "_block_until_ready":
                        d["park_self"] = id(fr.f_locals.get("self"))  # which executor's blocking submit
                        break
                    fr = fr.f_back
            out.append(d)
        return out

    def dump(self):
        frames = sys._current_frames()
        out = ["now=%r steps=%d cur=%r reason=%r" % (self.now, self.steps, self.cur, self.reason)]
        for t in self.threads:
            out.append(
                "  %r done=%s enabled=%s blocked_on=%s deadline=%r"
                % (t, t.done, t.enabled, _describe(t.blocked_on), t.deadline)
            )
            fr = frames.get(t.ident)
            if fr is not None and not t.done:
                out.extend("      " + l for l in _fmt_stack(fr, limit=12, all_files=True))
        return "\n".join(out)


def _describe(obj):
    if obj is None:
        return None
    if isinstance(obj, VThread):
        return "join(%s)" % obj.name
    if isinstance(obj, tuple):
        return repr(obj)
    site = getattr(obj, "site", None)
    return "%s@%s" % (type(obj).__name__, site)


REPO_PREFIX = "/repo/"


def _fmt_stack(frame, limit=10, all_files=False):
    out = []
    while frame is not None and len(out) < 40:
        fn = frame.f_code.co_filename
        if all_files or fn.startswith(REPO_PREFIX) or ("/verif/" in fn and not fn.endswith("vsched.py")):
            out.append("%s:%d:%s" % (os.path.basename(fn), frame.f_lineno, frame.f_code.co_name))
        frame = frame.f_back
    return out[:limit]


def _short_tb(e):
    out = []
    tb = e.__traceback__
    while tb is not None:
        fn = tb.tb_frame.f_code.co_filename
        out.append("%s:%d:%s" % (os.path.basename(fn), tb.tb_lineno, tb.tb_frame.f_code.co_name))
        tb = tb.tb_next
    return out[-8:]


def _site(depth=2):
    """Creation site of a primitive: file:qualified-function (stable under line shifts)."""
    try:
        f = sys._getframe(depth)
        # skip frames of this module (e.g. CCondition creating its CRLock)
        while f is not None and f.f_code.co_filename == __file__:
            f = f.f_back
        if f is None:
            return "?"
        return "%s:%s" % (os.path.basename(f.f_code.co_filename), f.f_code.co_qualname)
    except Exception:
        return "?"


# --------------------------------------------------------------------------
# controlled primitives (dual mode)
# --------------------------------------------------------------------------
class CLock(object):
    def __init__(self):
        self._real = _real_allocate()
        self.owner = None
        self.site = _site()

    def acquire(self, blocking=True, timeout=-1):
        s = cur_sched()
        if s is None:
            return self._real.acquire(blocking, timeout)
        if s.aborting:
            return True
        s.point()
        me = s.cur
        if self.owner is not None and self.owner.sched is not s:
            self.owner = None  # left over from an aborted run (module-level lock)
        while self.owner is not None:
            if not blocking:
                return False
            s.contended += 1
            if timeout is not None and timeout >= 0:
                if timeout == 0 or not s.block(self, timeout):
                    return False
            else:
                s.block(self, None)
        self.owner = me
        if s.track_lock_order:
            for h in me.holding:
                if h is not self:
                    s.lock_edges.setdefault((h.site, self.site), (id(h), id(self), me.name))
        me.holding.append(self)
        return True

    def release(self):
        s = cur_sched()
        if s is None:
            return self._real.release()
        if s.aborting:
            return
        if self.owner is None:
            raise RuntimeError("release unlocked lock")
        me = self.owner
        self.owner = None
        try:
            me.holding.remove(self)
        except ValueError:
            pass
        s.wake(self)
        s.point()

    def locked(self):
        s = cur_sched()
        if s is None:
            return self._real.locked()
        return self.owner is not None

    def _at_fork_reinit(self):
        self._real = _real_allocate()
        self.owner = None

    def __enter__(self):
        return self.acquire()

    def __exit__(self, *a):
        self.release()


class CRLock(object):
    def __init__(self):
        self._real = _RealRLock()
        self.owner = None
        self.count = 0
        self.site = _site()

    def acquire(self, blocking=True, timeout=-1):
        s = cur_sched()
        if s is None:
            return self._real.acquire(blocking, timeout)
        if s.aborting:
            return True
        me = s.cur
        if self.owner is me:
            self.count += 1
            return True
        s.point()
        if self.owner is not None and self.owner.sched is not s:
            self.owner = None  # left over from an aborted run (module-level lock)
            self.count = 0
        while self.owner is not None:
            if not blocking:
                return False
            s.contended += 1
            if timeout is not None and timeout >= 0:
                if timeout == 0 or not s.block(self, timeout):
                    return False
            else:
                s.block(self, None)
        self.owner = me
        self.count = 1
        if s.track_lock_order:
            for h in me.holding:
                if h is not self:
                    s.lock_edges.setdefault((h.site, self.site), (id(h), id(self), me.name))
        me.holding.append(self)
        return True

    def release(self):
        s = cur_sched()
        if s is None:
            return self._real.release()
        if s.aborting:
            return
        if self.owner is not s.cur:
            raise RuntimeError("cannot release un-acquired lock")
        self.count -= 1
        if self.count == 0:
            me = self.owner
            self.owner = None
            try:
                me.holding.remove(self)
            except ValueError:
                pass
            s.wake(self)
            s.point()

    def _is_owned(self):
        s = cur_sched()
        if s is None:
            return self._real._is_owned()
        return self.owner is s.cur

    def _release_save(self):
        s = cur_sched()
        if s is None:
            return self._real._release_save()
        c = self.count
        me = self.owner
        self.count = 0
        self.owner = None
        try:
            me.holding.remove(self)
        except ValueError:
            pass
        s.wake(self)
        return c

    def _acquire_restore(self, c):
        s = cur_sched()
        if s is None:
            return self._real._acquire_restore(c)
        if s.aborting:
            return
        me = s.cur
        while self.owner is not None:
            s.block(self, None)
        self.owner = me
        self.count = c
        me.holding.append(self)

    def __enter__(self):
        return self.acquire()

    def __exit__(self, *a):
        self.release()


class CCondition(object):
    def __init__(self, lock=None):
        if lock is None:
            lock = CRLock()
        self._lock = lock
        self.site = _site()
        self._realcond = None
        self.acquire = lock.acquire
        self.release = lock.release

    def _real_cond(self):
        if self._realcond is None:
            self._realcond = _RealCondition(self._lock._real)
        return self._realcond

    def __enter__(self):
        return self._lock.__enter__()

    def __exit__(self, *a):
        return self._lock.__exit__(*a)

    def wait(self, timeout=None):
        s = cur_sched()
        if s is None:
            return self._real_cond().wait(timeout)
        if s.aborting:
            raise SchedAbort()
        lock = self._lock
        if isinstance(lock, CRLock):
            saved = lock._release_save()
        else:
            lock.release()
            saved = None
        try:
            if timeout is not None and timeout <= 0:
                s.point()
                ok = False
            else:
                ok = s.block(self, timeout)
        finally:
            if saved is not None:
                lock._acquire_restore(saved)
            else:
                lock.acquire()
        return ok

    def wait_for(self, predicate, timeout=None):
        s = cur_sched()
        if s is None:
            return self._real_cond().wait_for(predicate, timeout)
        end = None if timeout is None else s.now + timeout
        result = predicate()
        while not result:
            if end is not None:
                left = end - s.now
                if left <= 0:
                    break
                self.wait(left)
            else:
                self.wait(None)
            result = predicate()
        return result

    def notify(self, n=1):
        s = cur_sched()
        if s is None:
            return self._real_cond().notify(n)
        if s.aborting:
            return
        s.wake(self, n)

    def notify_all(self):
        s = cur_sched()
        if s is None:
            return self._real_cond().notify_all()
        if s.aborting:
            return
        s.wake(self)

    notifyAll = notify_all


class CEvent(object):
    def __init__(self):
        self._real = _RealEvent()
        self.flag = False
        self.site = _site()

    def is_set(self):
        if cur_sched() is None:
            return self._real.is_set()
        return self.flag

    isSet = is_set

    def set(self):
        s = cur_sched()
        if s is None:
            # Uncontrolled caller (e.g. interpreter exit hook). Keep both views.
            self.flag = True
            return self._real.set()
        if s.aborting:
            self.flag = True
            return
        s.point()
        self.flag = True
        s.wake(self)
        s.point()

    def clear(self):
        s = cur_sched()
        if s is None:
            self.flag = False
            return self._real.clear()
        if s.aborting:
            return
        s.point()
        self.flag = False

    def wait(self, timeout=None):
        s = cur_sched()
        if s is None:
            return self._real.wait(timeout)
        if s.aborting:
            raise SchedAbort()
        s.point()
        if self.flag:
            return True
        if timeout is not None and timeout <= 0:
            return False
        s.block(self, timeout)
        return self.flag


class CSemaphore(object):
    def __init__(self, value=1):
        self._real = _RealSemaphore(value)
        self.value = value
        self.site = _site()

    def acquire(self, blocking=True, timeout=None):
        s = cur_sched()
        if s is None:
            return self._real.acquire(blocking, timeout)
        if s.aborting:
            return True
        s.point()
        while self.value <= 0:
            if not blocking:
                return False
            if timeout is not None:
                if timeout <= 0 or not s.block(self, timeout):
                    return False
            else:
                s.block(self, None)
        self.value -= 1
        return True

    def release(self, n=1):
        s = cur_sched()
        if s is None:
            return self._real.release(n)
        if s.aborting:
            return
        self.value += n
        s.wake(self, n)
        s.point()

    __enter__ = acquire

    def __exit__(self, *a):
        self.release()


class CBoundedSemaphore(CSemaphore):
    pass


class CSimpleQueue(object):
    def __init__(self):
        self._real = _RealSimpleQueue()
        self.items = collections.deque()
        self.site = _site()

    def put(self, item, block=True, timeout=None):
        s = cur_sched()
        if s is None:
            return self._real.put(item)
        self.items.append(item)
        if s.aborting:
            return
        s.wake(self, 1)
        s.point()

    put_nowait = put

    def get(self, block=True, timeout=None):
        s = cur_sched()
        if s is None:
            return self._real.get(block, timeout)
        if s.aborting:
            if self.items:
                return self.items.popleft()
            raise SchedAbort()
        s.point()
        while not self.items:
            if not block:
                raise _queue_mod.Empty()
            if timeout is not None:
                if timeout <= 0 or not s.block(self, timeout):
                    raise _queue_mod.Empty()
            else:
                s.block(self, None)
        return self.items.popleft()

    def get_nowait(self):
        return self.get(False)

    def empty(self):
        if cur_sched() is None:
            return self._real.empty()
        return not self.items

    def qsize(self):
        if cur_sched() is None:
            return self._real.qsize()
        return len(self.items)


class CThread(object):
    """threading.Thread replacement: controlled when started from a controlled
    thread of the active scheduler, a real thread otherwise."""

    def __init__(self, group=None, target=None, name=None, args=(), kwargs=None, daemon=None):
        self._target = target
        self._args = args
        self._kwargs = kwargs or {}
        self.name = name or "Thread-v"
        self.daemon = bool(daemon)
        self._vt = None
        self._rt = None

    def run(self):
        if self._target is not None:
            self._target(*self._args, **self._kwargs)

    def start(self):
        s = cur_sched()
        if s is None:
            self._rt = _RealThread(target=self.run, name=self.name)
            self._rt.daemon = self.daemon
            self._rt.start()
            return
        if s.aborting:
            raise SchedAbort()
        self._vt = s._new_thread(self.name, self.run, (), {}, client=False)
        s.record("thread_start", name=self.name)
        s.point()

    def _drop(self):
        self._target = self._args = self._kwargs = None

    def join(self, timeout=None):
        s = cur_sched()
        if s is None:
            if self._rt is not None:
                return self._rt.join(timeout)
            return
        if s.aborting:
            raise SchedAbort()
        s.point()
        vt = self._vt
        if vt is None:
            raise RuntimeError("cannot join thread before it is started")
        if vt is s.cur:
            raise RuntimeError("cannot join current thread")
        if not vt.done:
            if timeout is not None and timeout <= 0:
                return
            s.block(vt, timeout)

    def is_alive(self):
        if self._vt is not None:
            return not self._vt.done
        return self._rt is not None and self._rt.is_alive()

    isAlive = is_alive

    @property
    def ident(self):
        if self._vt is not None:
            return self._vt.ident
        return self._rt.ident if self._rt is not None else None

    def setDaemon(self, v):
        self.daemon = v

    def getName(self):
        return self.name


def v_monotonic():
    s = cur_sched()
    if s is None:
        return _real_monotonic()
    return s.monotonic()


def v_sleep(d):
    s = cur_sched()
    if s is None:
        return _real_sleep(d)
    return s.sleep(d)


class _Shim(types.ModuleType):
    def __init__(self, real, overrides):
        types.ModuleType.__init__(self, real.__name__)
        self.__dict__["_real_mod"] = real
        self.__dict__.update(overrides)

    def __getattr__(self, name):
        return getattr(self.__dict__["_real_mod"], name)


SHIM_THREADING = _Shim(
    threading,
    dict(
        Lock=CLock,
        RLock=CRLock,
        Event=CEvent,
        Condition=CCondition,
        Semaphore=CSemaphore,
        BoundedSemaphore=CBoundedSemaphore,
        Thread=CThread,
    ),
)
SHIM_TIME = _Shim(time, dict(monotonic=v_monotonic, sleep=v_sleep))
SHIM_QUEUE = _Shim(_queue_mod, dict(SimpleQueue=CSimpleQueue))


# --------------------------------------------------------------------------
# logging capture
# --------------------------------------------------------------------------
GLOBAL_LOG = []


class CaptureHandler(logging.Handler):
    def createLock(self):
        self.lock = None

    def handle(self, record):
        self.emit(record)
        return True

    def emit(self, record):
        et = None
        ev = None
        if record.exc_info and record.exc_info[0] is not None:
            et = record.exc_info[0].__name__
            try:
                ev = repr(record.exc_info[1])[:200]
            except Exception:
                ev = "?"
        tbs = None
        if record.exc_info and record.exc_info[2] is not None:
            tb = record.exc_info[2]
            tbs = []
            while tb is not None:
                tbs.append(
                    "%s:%d:%s"
                    % (
                        os.path.basename(tb.tb_frame.f_code.co_filename),
                        tb.tb_lineno,
                        tb.tb_frame.f_code.co_name,
                    )
                )
                tb = tb.tb_next
            tbs = tbs[-6:]
        item = (record.name, record.levelno, str(record.msg)[:200], et, ev, tbs)
        record.exc_info = None
        record.args = None
        s = CURRENT
        if s is not None:
            if not s.aborting:
                s.log_records.append(item)
        else:
            GLOBAL_LOG.append(item)
            del GLOBAL_LOG[:-200]


def install_log_capture():
    root = logging.getLogger()
    for h in list(root.handlers):
        root.removeHandler(h)
    root.addHandler(CaptureHandler())
    root.setLevel(logging.INFO)
    logging.lastResort = None
    logging.raiseExceptions = False


# --------------------------------------------------------------------------
# line-level pre-emption
# --------------------------------------------------------------------------
_code_cache = {}
_line_prefixes = ()
_line_exclude = ("logwrap.py", os.sep + "metrics" + os.sep + "null.py")
_monitor_installed = False


def _on_line(code, line):
    info = _code_cache.get(code)
    if info is None:
        fn = code.co_filename
        if fn.startswith(_line_prefixes) and not fn.endswith(_line_exclude):
            info = (os.path.basename(fn), code.co_name)
            if info[0] in _instr_files:
                sys.monitoring.set_local_events(TOOL_ID, code, sys.monitoring.events.INSTRUCTION)
        else:
            info = False
        _code_cache[code] = info
    if info is False:
        return sys.monitoring.DISABLE
    s = CURRENT
    if s is None:
        return None
    vt = s.by_ident.get(_get_ident())
    if vt is None:
        return None
    prev = vt.loc
    vt.loc = (info[0], info[1], line)
    if s.trace_funcs and info[1] in s.trace_funcs and (prev is None or prev[1] != info[1]) and s.cur is vt and not s.aborting:
        s.record("enter", func=info[1])
    if s.line_points and s.cur is vt:
        s.point()
    return None


JUMP_POINTS = [False]  # per-case switch (progs.run_case: case["jump_points"]): backward jumps are scheduling points too


def _on_jump(code, offset, dest):
    """A loop iteration inside ONE source line (a comprehension over shared state) has no line event of its own;
    with JUMP_POINTS on, every backward jump in the library's code is a scheduling point as well."""
    info = _code_cache.get(code)
    if info is None:
        fn = code.co_filename
        info = (os.path.basename(fn), code.co_name) if fn.startswith(_line_prefixes) and not fn.endswith(_line_exclude) else False
        _code_cache[code] = info
    if info is False:
        return sys.monitoring.DISABLE
    if not JUMP_POINTS[0] or dest > offset:
        return None
    s = CURRENT
    if s is None:
        return None
    vt = s.by_ident.get(_get_ident())
    if vt is not None and s.line_points and s.cur is vt:
        s.point()
    return None


INSTR_POINTS = [()]  # per-case switch (progs.run_case: case["instr_points"] = [file basenames]): in these files of the library
#                      every bytecode instruction is a scheduling point (a read-modify-write written on ONE source line can then be split)
_instr_files = set()  # files for which INSTRUCTION events have been switched on in this process (they stay on; the callback filters)


def enable_instr_points(files):
    files = tuple(sorted(files or ()))
    INSTR_POINTS[0] = files
    new = set(files) - _instr_files
    if not new:
        return
    _instr_files.update(new)
    mon = sys.monitoring
    for code, info in list(_code_cache.items()):
        if info and info[0] in new:
            try:
                mon.set_local_events(TOOL_ID, code, mon.events.INSTRUCTION)
            except Exception:
                pass


def _on_instruction(code, offset):
    info = _code_cache.get(code)
    if not info or info[0] not in INSTR_POINTS[0]:
        return None
    s = CURRENT
    if s is None:
        return None
    vt = s.by_ident.get(_get_ident())
    if vt is not None and s.line_points and s.cur is vt:
        s.point()
    return None


def install_monitor(prefixes):
    global _line_prefixes, _monitor_installed
    _line_prefixes = tuple(prefixes)
    if _monitor_installed:
        return
    mon = sys.monitoring
    mon.use_tool_id(TOOL_ID, "vsched")
    mon.register_callback(TOOL_ID, mon.events.LINE, _on_line)
    mon.register_callback(TOOL_ID, mon.events.JUMP, _on_jump)
    mon.register_callback(TOOL_ID, mon.events.INSTRUCTION, _on_instruction)
    mon.set_events(TOOL_ID, mon.events.LINE | mon.events.JUMP)
    _monitor_installed = True
    import atexit

    atexit.register(_uninstall_monitor)


def _uninstall_monitor():
    try:
        sys.monitoring.set_events(TOOL_ID, 0)
        sys.monitoring.register_callback(TOOL_ID, sys.monitoring.events.LINE, None)
    except Exception:
        pass


# --------------------------------------------------------------------------
# interposition
# --------------------------------------------------------------------------
_installed = False


def install(repo="/repo", stdlib_lines=False, extra_path=None):
    """Import more_executors from `repo` with controlled primitives bound."""
    global _installed, REPO_PREFIX
    if _installed:
        return
    import concurrent.futures
    import concurrent.futures._base as base
    import concurrent.futures.thread as cfthread
    import concurrent.futures.process  # noqa
    import asyncio  # noqa
    import atexit, weakref, functools, contextlib, math  # noqa

    assert "more_executors" not in sys.modules, "more_executors imported before vsched.install()"
    REPO_PREFIX = os.path.join(os.path.abspath(repo), "")
    if extra_path:
        sys.path.insert(0, extra_path)
    sys.path.insert(0, repo)
    names = ("Lock", "RLock", "Event", "Condition", "Semaphore", "BoundedSemaphore", "Thread")
    saved = dict((k, getattr(threading, k)) for k in names)
    saved_time = (time.monotonic, time.sleep)
    repl = dict(
        Lock=CLock,
        RLock=CRLock,
        Event=CEvent,
        Condition=CCondition,
        Semaphore=CSemaphore,
        BoundedSemaphore=CBoundedSemaphore,
        Thread=CThread,
    )
    for k, v in repl.items():
        setattr(threading, k, v)
    time.monotonic = v_monotonic
    time.sleep = v_sleep
    try:
        import more_executors  # noqa
        import more_executors.futures  # noqa
        import more_executors.retry  # noqa
        import more_executors.poll  # noqa
        import more_executors._impl.asyncio  # noqa
        import more_executors._impl.flat_map  # noqa
    finally:
        for k, v in saved.items():
            setattr(threading, k, v)
        time.monotonic, time.sleep = saved_time
    mepath = os.path.abspath(sys.modules["more_executors"].__file__)
    if not mepath.startswith(REPO_PREFIX):
        raise HarnessError("more_executors imported from %s, not %s" % (mepath, repo))
    realmap = {
        id(saved["Lock"]): CLock,
        id(saved["RLock"]): CRLock,
        id(saved["Event"]): CEvent,
        id(saved["Condition"]): CCondition,
        id(saved["Semaphore"]): CSemaphore,
        id(saved["BoundedSemaphore"]): CBoundedSemaphore,
        id(saved["Thread"]): CThread,
        id(saved_time[0]): v_monotonic,
        id(saved_time[1]): v_sleep,
        id(threading): SHIM_THREADING,
        id(time): SHIM_TIME,
        id(_queue_mod): SHIM_QUEUE,
        id(_RealSimpleQueue): CSimpleQueue,
    }
    for name, mod in list(sys.modules.items()):
        if not name.startswith("more_executors") or mod is None:
            continue
        for k, v in list(vars(mod).items()):
            r = realmap.get(id(v))
            if r is not None:
                setattr(mod, k, r)
    base.threading = SHIM_THREADING
    base.time = SHIM_TIME
    cfthread.threading = SHIM_THREADING
    cfthread.queue = SHIM_QUEUE
    cfthread._global_shutdown_lock = CLock()
    prefixes = [os.path.join(REPO_PREFIX, "more_executors", "_impl", "")]
    if stdlib_lines:
        prefixes.append(os.path.dirname(base.__file__) + os.sep)
    install_monitor(prefixes)
    install_log_capture()
    _installed = True


def _quiet_unraisable(unraisable):
    pass


def run_case(clients, tape=(), block_tape=(), clock_mode="exact", max_steps=400000,
             max_vtime=1e5, line_points=True, track_lock_order=False, point_hook=None,
             setup=None, trace_funcs=None):
    """Run client callables [(name, fn)] under a fresh scheduler.

    Returns the Scheduler (with .end_reason, .events, thread summaries) after
    every controlled thread has been unwound."""
    global CURRENT
    assert CURRENT is None
    s = Scheduler(tape, block_tape, clock_mode, max_steps, max_vtime, line_points)
    s.track_lock_order = track_lock_order
    s.point_hook = point_hook
    s.trace_funcs = set(trace_funcs) if trace_funcs else None
    old_hook = sys.unraisablehook
    sys.unraisablehook = _quiet_unraisable
    gc_was = gc.isenabled()
    gc.disable()
    CURRENT = s
    try:
        for name, fn in clients:
            s.spawn(name, fn)
        s.end_reason = s.run_batch()
        if s.end_reason in ("stuck", "vtime", "deadlock", "steps"):
            try:
                s.stuck_clients = s.blocked_clients()
            except Exception:
                s.stuck_clients = []
        s.final_threads = s.thread_summary()
        if getattr(s, "_snap", None):
            s.final_threads, s.stuck_clients = s._snap
    finally:
        try:
            s.abort()
        finally:
            CURRENT = None
            sys.unraisablehook = old_hook
            if gc_was:
                gc.enable()
    return s
