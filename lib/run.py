import sys
import harness

if __name__ == "__main__":
    sys.exit(harness.main())
