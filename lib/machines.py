"""Hypothesis rule-based state machines driving the library step-wise under the engine.

Each rule injects ONE operation, the engine runs the library to quiescence at
the current virtual instant, and an invariant compares the observable state
with a small reference model.  Hypothesis shrinks the rule sequence as one value.
"""
import os

import hypothesis
from hypothesis import settings, strategies as st, Phase, HealthCheck
from hypothesis.stateful import RuleBasedStateMachine, rule, invariant, initialize, precondition, run_state_machine_as_test

import harness
import stepwise

TAP = "ex.tap0"


class MachineViolation(Exception):
    def __init__(self, signature, detail):
        Exception.__init__(self, signature)
        self.signature = signature
        self.detail = detail


def make_throttle_machine(ctx, log):
    class ThrottleMachine(RuleBasedStateMachine):
        """ThrottleExecutor over a manual base: queue model vs. what reaches the delegate."""

        def __init__(self):
            RuleBasedStateMachine.__init__(self)
            self.sw = stepwise.StepWorld()
            self.count = None
            self.built = False
            self.n = 0
            self.queue = []      # model: accepted, not handed over
            self.inflight = []   # model: handed over, not done
            self.expect_order = []
            self.done = set()
            self.history = []

        def teardown(self):
            ops = list(self.history)
            nt = any(o[0] in ("run", "cancel") for o in ops) and self.n > (self.count or 0)
            ctx.case({"machine": "throttle", "count": self.count, "ops": ops}, nt, ["machine:throttle", "count:%s" % self.count, "len:%d" % min(len(ops), 12)],
                     sample={"machine": "throttle", "count": self.count, "ops": ops})
            self.sw.close()

        def _do(self, op):
            self.history.append(op)
            return self.sw.do(op)

        def _fail(self, sig, detail):
            if sig in ctx.known:
                ctx.excluded_known[sig] += 1
                return
            if sig in ctx.suppressed:
                return
            v = MachineViolation(sig, detail)
            v.case = {"machine": "throttle", "count": self.count, "ops": list(self.history)}
            raise v

        @initialize(count=st.sampled_from([1, 1, 2, 3, None]))
        def build(self, count):
            self.count = count
            r = self.sw.do(["build", "ex", {"base": {"kind": "manual"}, "layers": [{"kind": "throttle", "tap": True, "count": count}]}])
            assert r[0] == "ok", r
            self.built = True

        def _model_handover(self):
            cap = 10 ** 9 if self.count is None else self.count
            while self.queue and len(self.inflight) < cap:
                f = self.queue.pop(0)
                self.inflight.append(f)
                self.expect_order.append(f)

        @precondition(lambda self: self.built and self.n < 8)
        @rule()
        def submit(self):
            f = "f%d" % self.n
            self.n += 1
            r = self._do(["submit", "ex", f, {"script": [["tag"]]}])
            if r != ["ok", "submitted"]:
                raise MachineViolation("C07:machine:submit-%s" % r[0], {"result": r})
            self.queue.append(f)
            self._model_handover()

        @precondition(lambda self: self.built and len(self.inflight) > 0)
        @rule(data=st.data())
        def complete(self, data):
            f = data.draw(st.sampled_from(sorted(self.inflight)))
            idx = self.expect_order.index(f)  # the delegate received the jobs in this order
            self._do(["run", "ex", idx])
            self.inflight.remove(f)
            self.done.add(f)
            self._model_handover()

        @precondition(lambda self: self.built and self.n > 0)
        @rule(data=st.data())
        def cancel(self, data):
            f = "f%d" % data.draw(st.integers(0, self.n - 1))
            r = self._do(["cancel", f])
            if r[0] != "ok":
                self._fail("C07:machine:cancel-raised", {"result": r})
            if f in self.queue:
                if r[1] is not True:
                    self._fail("C07:machine:queued-cancel-refused", {"fut": f})
                self.queue.remove(f)
            elif f in self.inflight:
                if r[1] is not True:
                    self._fail("C07:machine:handed-over-pending-cancel-refused", {"fut": f})
                self.inflight.remove(f)
                self.done.add(f)
            else:
                pass  # finished or already cancelled: either value is fine here (C02 owns that)
            self._model_handover()

        @precondition(lambda self: self.built)
        @rule(d=st.sampled_from([0.25, 1.0, 2.5, 31.0]))
        def advance(self, d):
            self.history.append(["advance", d])
            self.sw.advance(d)

        @invariant()
        def delegate_sees_what_the_model_says(self):
            if not self.built:
                return
            handed = [e[4]["fn"][:-3] for e in self.sw.s.events if e[3] == "tap_submit" and e[4]["tap"] == TAP]
            done = set(e[4]["fn"][:-3] for e in self.sw.s.events if e[3] == "tap_done" and e[4]["tap"] == TAP)
            inflight = [f for f in handed if f not in done]
            cap = 10 ** 9 if self.count is None else self.count
            if len(inflight) > cap:
                self._fail("C07:machine:over-admission", {"inflight": inflight, "count": self.count})
            if handed != self.expect_order:
                kind = "fifo-order" if sorted(handed) == sorted(self.expect_order) else ("idle-capacity" if len(handed) < len(self.expect_order) else "unexpected-hand-over")
                self._fail("C07:machine:%s" % kind, {"handed": handed, "model": self.expect_order, "queue": self.queue, "count": self.count})

    return ThrottleMachine


def run_machine(factory, ctx, seed, max_examples, steps):
    """Run one state machine; on failure record the violation with the shrunk rule sequence."""
    log = []
    for rnd in range(4):
        M = factory(ctx, log)
        cfg = settings(max_examples=max_examples, stateful_step_count=steps, deadline=None, database=None,
                       phases=[Phase.generate, Phase.shrink], suppress_health_check=list(HealthCheck), report_multiple_bugs=False)
        try:
            run_state_machine_as_test(hypothesis.seed(seed * 8 + rnd)(M), settings=cfg)
            return
        except MachineViolation as v:
            # Hypothesis re-raises from the minimal example it replays last: v.case is the shrunk history
            ctx.violation(v.signature, v.case, v.detail)
            ctx.suppressed.add(v.signature)


def replay_throttle(case):
    """Re-execute a recorded rule sequence of the throttle machine without Hypothesis."""
    ctx = harness.ShardCtx({}, [])
    M = make_throttle_machine(ctx, [])
    m = M()
    out = []
    try:
        m.count = case["count"]
        m.sw.do(["build", "ex", {"base": {"kind": "manual"}, "layers": [{"kind": "throttle", "tap": True, "count": case["count"]}]}])
        m.built = True
        for op in case["ops"]:
            try:
                if op[0] == "submit":
                    m.n += 1
                    m.history.append(op)
                    r = m.sw.do(op)
                    if r != ["ok", "submitted"]:
                        m._fail("C07:machine:submit-%s" % r[0], {"result": r})
                    m.queue.append(op[2])
                    m._model_handover()
                elif op[0] == "run":
                    f = m.expect_order[op[2]] if op[2] < len(m.expect_order) else None
                    m.history.append(op)
                    m.sw.do(op)
                    if f in m.inflight:
                        m.inflight.remove(f)
                        m.done.add(f)
                    m._model_handover()
                elif op[0] == "cancel":
                    f = op[1]
                    m.history.append(op)
                    r = m.sw.do(op)
                    if f in m.queue:
                        if r != ["ok", True]:
                            m._fail("C07:machine:queued-cancel-refused", {"fut": f})
                        m.queue.remove(f)
                    elif f in m.inflight:
                        if r != ["ok", True]:
                            m._fail("C07:machine:handed-over-pending-cancel-refused", {"fut": f})
                        m.inflight.remove(f)
                        m.done.add(f)
                    m._model_handover()
                elif op[0] == "advance":
                    m.sw.advance(op[1])
                m.delegate_sees_what_the_model_says()
            except MachineViolation as v:
                out.append({"signature": v.signature, "detail": v.detail})
                break
    finally:
        m.sw.close()
    return out


NS = "more_executors_"


def _mkey(metric, **labels):
    return NS + metric + "{" + ",".join("%s=%s" % kv for kv in sorted(labels.items())) + "}"


def make_metrics_machine(ctx, log):
    class MetricsMachine(RuleBasedStateMachine):
        """One named retry or throttle layer over a manual base; gauges and counters after every step."""

        def __init__(self):
            RuleBasedStateMachine.__init__(self)
            self.sw = stepwise.StepWorld()
            self.kind = None
            self.n = 0
            self.history = []
            self.shut = False

        def teardown(self):
            ops = list(self.history)
            nt = any(o[0] == "cancel" for o in ops)
            ctx.case({"machine": "metrics", "kind": self.kind, "ops": ops}, nt, ["machine:metrics", "kind:%s" % self.kind, "len:%d" % min(len(ops), 12)],
                     sample={"machine": "metrics", "kind": self.kind, "ops": ops})
            self.sw.close()

        def _do(self, op):
            self.history.append(op)
            return self.sw.do(op)

        def _fail(self, sig, detail):
            if sig in ctx.known:
                ctx.excluded_known[sig] += 1
                return
            if sig in ctx.suppressed:
                return
            v = MachineViolation(sig, detail)
            v.case = {"machine": "metrics", "kind": self.kind, "ops": list(self.history)}
            raise v

        @initialize(kind=st.sampled_from(["retry", "throttle"]))
        def build(self, kind):
            self.kind = kind
            layer = ({"kind": "retry", "policy": {"type": "exc", "max_attempts": 3, "sleep": 0.5, "exponent": 1.0, "base": ["E0"]}, "name": "n0", "tap": True}
                     if kind == "retry" else {"kind": "throttle", "count": 1, "name": "n0", "tap": True})
            r = self.sw.do(["build", "ex", {"base": {"kind": "manual"}, "layers": [layer]}])
            assert r[0] == "ok", r

        @precondition(lambda self: self.kind and self.n < 6 and not self.shut)
        @rule(script=st.sampled_from([[["tag"]], [["raise", "E0"], ["tag"]], [["raise", "E2"]]]))
        def submit(self, script):
            f = "f%d" % self.n
            self.n += 1
            self._do(["submit", "ex", f, {"script": script}])

        @precondition(lambda self: self.kind)
        @rule()
        def run_all(self):
            self._do(["runall", "ex"])

        @precondition(lambda self: self.kind)
        @rule(j=st.integers(0, 8))
        def run_one(self, j):
            self._do(["run", "ex", j])

        @precondition(lambda self: self.kind and self.n > 0)
        @rule(data=st.data())
        def cancel(self, data):
            self._do(["cancel", "f%d" % data.draw(st.integers(0, self.n - 1))])

        @precondition(lambda self: self.kind)
        @rule(j=st.integers(0, 8))
        def cancel_behind_the_back(self, j):
            self._do(["complete", "ex.base.j%d" % j, "cancel"])

        @precondition(lambda self: self.kind)
        @rule(d=st.sampled_from([0.1, 0.5, 2.5]))
        def advance(self, d):
            self.history.append(["advance", d])
            self.sw.advance(d)

        @precondition(lambda self: self.kind and not self.shut)
        @rule()
        def shutdown(self):
            self.shut = True
            self._do(["shutdown", "ex", False])

        @invariant()
        def gauges_match_reality(self):
            if not self.kind:
                return
            m = self.sw.do(["metrics"])
            if m[0] != "ok":
                return
            m = m[1]
            states = {}
            for i in range(self.n):
                r = self.sw.do(["state", "f%d" % i])
                if r[0] == "ok":
                    states["f%d" % i] = r[1]
            T, N = self.kind, "n0"

            def val(k):
                return m.get(k, [0, 0])[0]

            for k, (v, mn) in m.items():
                if ("inprogress" in k or "queue" in k) and mn < 0:
                    self._fail("C20:machine:gauge-went-negative:%s" % k.split("{")[0][len(NS):], {"key": k, "min": mn})
            pending = [f for f, s_ in states.items() if not s_["done"]]
            exp = {
                "future_total": len(states), "future_inprogress": len(pending),
                "future_cancel": len([1 for s_ in states.values() if s_["cancelled"]]),
                "future_error": len([1 for s_ in states.values() if s_["done"] and "exc" in s_]),
            }
            for metric, want in exp.items():
                got = val(_mkey(metric, type=T, executor=N))
                if got != want:
                    self._fail("C20:machine:%s:%s" % (metric, T), {"got": got, "expected": want})
            got = val(_mkey("exec_inprogress", type=T, executor=N))
            if got != (0 if self.shut else 1):
                self._fail("C20:machine:exec_inprogress:%s" % T, {"got": got, "shut": self.shut})
            handed = [e[4]["fn"][:-3] for e in self.sw.s.events if e[3] == "tap_submit" and e[4]["tap"] == TAP]
            if T == "retry":
                got = val(_mkey("retry_queue", executor=N))
                if got != len(pending):
                    self._fail("C20:machine:retry_queue", {"got": got, "expected": len(pending)})
                per = {}
                for f in handed:
                    per[f] = per.get(f, 0) + 1
                want = sum(v - 1 for v in per.values())
                got = val(_mkey("retry_total", executor=N))
                if got != want:
                    self._fail("C20:machine:retry_total", {"got": got, "expected": want})
            else:
                queued = [f for f, s_ in states.items() if f not in handed and not s_["cancelled"]]
                got = val(_mkey("throttle_queue", executor=N))
                if got != len(queued):
                    self._fail("C20:machine:throttle_queue", {"got": got, "expected": len(queued)})

    return MetricsMachine


def replay_metrics(case):
    ctx = harness.ShardCtx({}, [])
    M = make_metrics_machine(ctx, [])
    m = M()
    out = []
    try:
        m.kind = case["kind"]
        layer = ({"kind": "retry", "policy": {"type": "exc", "max_attempts": 3, "sleep": 0.5, "exponent": 1.0, "base": ["E0"]}, "name": "n0", "tap": True}
                 if m.kind == "retry" else {"kind": "throttle", "count": 1, "name": "n0", "tap": True})
        m.sw.do(["build", "ex", {"base": {"kind": "manual"}, "layers": [layer]}])
        for op in case["ops"]:
            try:
                m.history.append(op)
                if op[0] == "advance":
                    m.sw.advance(op[1])
                else:
                    if op[0] == "submit":
                        m.n += 1
                    if op[0] == "shutdown":
                        m.shut = True
                    m.sw.do(op)
                m.gauges_match_reality()
            except MachineViolation as v:
                out.append({"signature": v.signature, "detail": v.detail})
                break
    finally:
        m.sw.close()
    return out


def make_poll_machine(ctx, log):
    class PollMachine(RuleBasedStateMachine):
        """PollExecutor over a manual base, driven one operation at a time.  At quiescent points there is no
        'in transition' slack: every poll call must have received EXACTLY the descriptors of the futures that
        were eligible (delegate finished successfully) and unresolved when it ran."""

        PFN = "ex.L0.poll"

        def __init__(self):
            RuleBasedStateMachine.__init__(self)
            self.sw = stepwise.StepWorld()
            self.built = False
            self.n = 0
            self.history = []
            self.interval = None
            self.after = {}
            self.seen_calls = 0
            self.eligible = {}    # fut -> sightings so far
            self.resolved = set()
            self.failed = set()
            self.pending_delegate = []  # futures whose job has not been run yet (in job order)
            self.job_of = {}

        def teardown(self):
            ops = list(self.history)
            nt = any(o[0] in ("cancel", "notify") for o in ops) and self.seen_calls >= 2
            ctx.case({"machine": "poll", "interval": self.interval, "after": self.after, "ops": ops}, nt,
                     ["machine:poll", "len:%d" % min(len(ops), 12), "polls:%d" % min(self.seen_calls, 9)],
                     sample={"machine": "poll", "interval": self.interval, "after": self.after, "ops": ops})
            self.sw.close()

        def _fail(self, sig, detail):
            if sig in ctx.known:
                ctx.excluded_known[sig] += 1
                return
            if sig in ctx.suppressed:
                return
            v = MachineViolation(sig, detail)
            v.case = {"machine": "poll", "interval": self.interval, "after": self.after, "ops": list(self.history)}
            raise v

        def _do(self, op):
            self.history.append(op)
            return self.sw.do(op)

        @initialize(interval=st.sampled_from([0.5, 2.0]), after=st.lists(st.sampled_from([1, 2, 3, None]), min_size=6, max_size=6))
        def build(self, interval, after):
            self.interval = interval
            self.after = dict(("f%d.fn" % i, {"after": a}) for i, a in enumerate(after))
            r = self.sw.do(["build", "ex", {"base": {"kind": "manual"}, "layers": [{"kind": "poll", "interval": interval, "per_sub": self.after}]}])
            assert r[0] == "ok", r
            self.built = True
            self._check_polls()

        @precondition(lambda self: self.built and self.n < 6)
        @rule(fails=st.sampled_from([False, False, False, True]))
        def submit(self, fails):
            f = "f%d" % self.n
            self.job_of[f] = self.n
            self.n += 1
            self._do(["submit", "ex", f, {"script": [["raise", "E0"]] if fails else [["tag"]]}])
            self.pending_delegate.append((f, fails))
            self._check_polls()

        @precondition(lambda self: self.built and len(self.pending_delegate) > 0)
        @rule(data=st.data())
        def run(self, data):
            f, fails = data.draw(st.sampled_from(self.pending_delegate))
            self.pending_delegate.remove((f, fails))
            self._do(["run", "ex", self.job_of[f]])
            if fails:
                self.failed.add(f)
            else:
                self.eligible[f] = 0
            self._check_polls(expect_prompt=not fails, why="eligible")

        @precondition(lambda self: self.built and self.n > 0)
        @rule(data=st.data())
        def cancel(self, data):
            f = "f%d" % data.draw(st.integers(0, self.n - 1))
            r = self._do(["cancel", f])
            if r[0] != "ok":
                self._fail("C08:machine:cancel-raised", {"result": r})
                return
            if r[1] is True:
                self.resolved.add(f)
                self.eligible.pop(f, None)
                self.pending_delegate = [(g, x) for g, x in self.pending_delegate if g != f]
            self._check_polls()

        @precondition(lambda self: self.built)
        @rule()
        def notify(self):
            self._do(["notify", "ex"])
            self._check_polls(expect_prompt=True, why="notify")

        @precondition(lambda self: self.built)
        @rule(d=st.sampled_from([0.25, 0.5, 2.0, 4.5]))
        def advance(self, d):
            self.history.append(["advance", d])
            # let time pass timer by timer so that every poll call is checked against the state it ran in
            left = d
            step = 0.25
            while left > 1e-9:
                self.sw.advance(min(step, left))
                left -= step
                self._check_polls()

        def _check_polls(self, expect_prompt=False, why=None):
            """Consume the poll calls made since the last look; each must show exactly the eligible, unresolved futures."""
            calls = [e for e in self.sw.s.events if e[3] == "poll_call" and e[4]["fn"] == self.PFN]
            new = calls[self.seen_calls:]
            if expect_prompt and not new:
                self._fail("C08:machine:poll-not-prompt:%s" % why, {"now": self.sw.now})
            for c in new:
                import models
                shown = sorted((models.origin(r) or [0, "?"])[1][:-3] for r in c[4]["results"])
                want = sorted(self.eligible)
                if shown != want:
                    extra = [f for f in shown if f not in want]
                    missing = [f for f in want if f not in shown]
                    kind = "duplicate" if len(set(shown)) != len(shown) else "stale-descriptor" if extra else "descriptor-missing"
                    self._fail("C08:machine:%s" % kind, {"call": c[4]["k"], "shown": shown, "expected": want, "extra": extra, "missing": missing})
                # the scripted poll function yields on the n-th sighting
                for f in list(self.eligible):
                    self.eligible[f] += 1
                    a = self.after.get(f + ".fn", {}).get("after", 1)
                    if a is not None and self.eligible[f] >= a:
                        self.resolved.add(f)
                        del self.eligible[f]
            self.seen_calls = len(calls)

        @invariant()
        def outcomes(self):
            if not self.built:
                return
            for f in sorted(self.resolved | self.failed):
                r = self.sw.do(["state", f])
                if r[0] == "ok" and not r[1]["done"]:
                    self._fail("C08:machine:resolved-future-not-done", {"fut": f, "state": r[1]})
            for f in sorted(self.eligible):
                r = self.sw.do(["state", f])
                if r[0] == "ok" and r[1]["done"]:
                    self._fail("C08:machine:done-without-yield", {"fut": f, "state": r[1]})

    return PollMachine


def replay_poll(case):
    ctx = harness.ShardCtx({}, [])
    M = make_poll_machine(ctx, [])
    m = M()
    out = []
    try:
        m.interval = case["interval"]
        m.after = case["after"]
        m.sw.do(["build", "ex", {"base": {"kind": "manual"}, "layers": [{"kind": "poll", "interval": m.interval, "per_sub": m.after}]}])
        m.built = True
        m._check_polls()
        for op in case["ops"]:
            try:
                if op[0] == "submit":
                    fails = op[3]["script"][0][0] == "raise"
                    f = op[2]
                    m.job_of[f] = m.n
                    m.n += 1
                    m._do(op)
                    m.pending_delegate.append((f, fails))
                    m._check_polls()
                elif op[0] == "run":
                    f = [g for g, j in m.job_of.items() if j == op[2]][0]
                    fails = [x for g, x in m.pending_delegate if g == f]
                    m.pending_delegate = [(g, x) for g, x in m.pending_delegate if g != f]
                    m._do(op)
                    if fails and fails[0]:
                        m.failed.add(f)
                    elif fails:
                        m.eligible[f] = 0
                    m._check_polls(expect_prompt=bool(fails) and not fails[0], why="eligible")
                elif op[0] == "cancel":
                    r = m._do(op)
                    if r[0] == "ok" and r[1] is True:
                        m.resolved.add(op[1])
                        m.eligible.pop(op[1], None)
                        m.pending_delegate = [(g, x) for g, x in m.pending_delegate if g != op[1]]
                    m._check_polls()
                elif op[0] == "notify":
                    m._do(op)
                    m._check_polls(expect_prompt=True, why="notify")
                elif op[0] == "advance":
                    left = op[1]
                    while left > 1e-9:
                        m.sw.advance(min(0.25, left))
                        left -= 0.25
                        m._check_polls()
                m.outcomes()
            except MachineViolation as v:
                out.append({"signature": v.signature, "detail": v.detail})
                break
    finally:
        m.sw.close()
    return out
