"""Sequential reference models, written from the documentation and the property
text - they never call the library.

StackModel: a sequential interpreter for layer stacks.  Given the stack spec
and a submission's callable script it returns the outcome the future must have,
how often the callable is invoked, how often each layer function is called for
this submission, and an upper bound on the virtual time the whole thing needs
(sum of retry delays and poll waits; computation itself takes no time).

Values and exceptions are represented in the JSON-able form produced by
world.jsonable():  exceptions are ["!exc", typename, tag].
"""

EXC_PARENTS = {"E0": ["E0", "Exception"], "E1": ["E1", "E0", "Exception"], "E2": ["E2", "Exception"],
               "E3": ["E3", "ValueError", "Exception"], "Fault": ["Fault", "Exception"],
               "TypeError": ["TypeError", "Exception"], "EB": ["EB", "BaseException"]}


def isinstance_name(exc_type, base):
    return base in EXC_PARENTS.get(exc_type, [exc_type, "Exception"])


def origin(x):
    """The submission a value/exception descends from: the ("c", fnname, k) tag."""
    if isinstance(x, (list, tuple)):
        if len(x) == 3 and x[0] == "c":
            return [x[0], x[1], x[2]]
        if len(x) == 3 and x[0] == "!exc":
            return origin(x[2])
        for y in x:
            r = origin(y)
            if r is not None:
                return r
    return None


class Outcome(object):
    __slots__ = ("kind", "value", "etype", "tag")

    def __init__(self, kind, value=None, etype=None, tag=None):
        self.kind = kind  # "v" | "e" | "c" (cancelled) | "pending"
        self.value = value
        self.etype = etype
        self.tag = tag

    def exc_json(self):
        return ["!exc", self.etype, self.tag]

    def key(self):
        if self.kind == "v":
            return ["v", self.value]
        if self.kind == "e":
            return ["e", self.etype, self.tag]
        return [self.kind]

    def __repr__(self):
        return "Outcome(%r)" % (self.key(),)


def V(v):
    return Outcome("v", value=v)


def E(etype, tag):
    return Outcome("e", etype=etype, tag=tag)


class StackModel(object):
    def __init__(self, exname, stack):
        self.exname = exname
        self.layers = stack.get("layers", [])

    def lname(self, i):
        names = getattr(self, "names", None)
        if names:
            return names[i]
        return "%s.L%d" % (self.exname, i)

    def run(self, futname, sub):
        """sub = {"script": [...]}.  Returns dict(outcome, invocations, elapsed, fn_calls)."""
        st = {"inv": 0, "elapsed": 0.0, "calls": {}, "script": sub.get("script", [["tag"]]), "fn": futname + ".fn",
              "policy": sub.get("retry_policy"), "delays": [], "attempt_outcomes": []}
        oc = self._eval(len(self.layers) - 1, st, top=True)
        return {"outcome": oc, "invocations": st["inv"], "elapsed": st["elapsed"], "fn_calls": st["calls"],
                "delays": st["delays"]}

    def _call(self, st, name):
        st["calls"][name] = st["calls"].get(name, 0) + 1

    def _behave(self, b, st):
        k = b[0]
        if k == "tag":
            return V(["c", st["fn"], st["inv"] - 1])
        if k == "ret":
            return V(b[1])
        if k == "raise":
            return E(b[1], ["c", st["fn"], st["inv"] - 1])
        if k == "vsleep":
            st["elapsed"] += b[1]
            return self._behave(b[2], st)
        if k == "echo":
            return V(["echo"])
        if k == "badstr":
            return V(["c", st["fn"], st["inv"] - 1])
        raise ValueError("model: unsupported callable behaviour %r" % (b,))

    def _eval(self, i, st, top=False):
        if i < 0:
            k = st["inv"]
            st["inv"] += 1
            b = st["script"][min(k, len(st["script"]) - 1)]
            return self._behave(b, st)
        L = self.layers[i]
        kind = L["kind"]
        ln = self.lname(i)
        if kind in ("throttle", "timeout", "cos"):
            return self._eval(i - 1, st)
        if kind == "map":
            oc = self._eval(i - 1, st)
            return self._map(L, ln, oc, st, flat=False)
        if kind == "flat_map":
            oc = self._eval(i - 1, st)
            return self._map(L, ln, oc, st, flat=True)
        if kind == "retry":
            pol = L.get("policy") or {"type": "exc"}
            if top and st.get("policy"):
                pol = st["policy"]
            attempt = 0
            while True:
                attempt += 1
                oc = self._eval(i - 1, st)
                if oc.kind == "c":
                    return oc
                retry, delay = self._policy(pol, attempt, oc)
                if not retry:
                    return oc
                st["delays"].append(delay)
                st["elapsed"] += delay
        if kind == "poll":
            oc = self._eval(i - 1, st)
            if oc.kind != "v":
                return oc
            org = origin(oc.value)
            key = org[1] if org else None
            spec = (L.get("per_sub") or {}).get(key, {})
            after = spec.get("after", 1)
            if after is None:
                return Outcome("pending")
            st["elapsed"] += (after - 1) * L.get("interval", 1.0)
            then = spec.get("then", ["res"])
            if then[0] == "res":
                return V(["p", oc.value] if len(then) < 2 else then[1])
            if then[0] == "res2":
                return V(then[1])
            if then[0] == "exc":
                return E(then[1], [ln + ".poll", key])
            raise ValueError(then)
        raise ValueError(kind)

    def _policy(self, pol, attempt, oc):
        if pol["type"] == "exc":
            if oc.kind != "e":
                return False, None
            if attempt >= pol.get("max_attempts", 3):
                return False, None
            bases = pol.get("base", ["Exception"])
            if not any(isinstance_name(oc.etype, b) for b in bases):
                return False, None
            d = min(pol.get("sleep", 1.0) * (pol.get("exponent", 2.0) ** (attempt - 1)), pol.get("max_sleep", 120))
            return True, d
        if pol["type"] == "script":
            sh = pol["should"][min(attempt - 1, len(pol["should"]) - 1)]
            if sh == "raise" or not sh:
                return False, None
            sl = pol["sleep"][min(attempt - 1, len(pol["sleep"]) - 1)]
            if sl == "raise":
                return False, None
            return True, sl
        raise ValueError(pol)

    def _map(self, L, ln, oc, st, flat):
        if oc.kind in ("c", "pending"):
            return oc
        if oc.kind == "v":
            spec = L.get("fn")
            if spec is None:
                return oc
            self._call(st, ln + ".fn")
            res = self._fn(spec[0], ln + ".fn", oc.value)
        else:
            spec = L.get("err")
            if spec is None:
                return oc
            self._call(st, ln + ".err")
            b = spec[0]
            if b[0] == "reraise":
                return oc
            res = self._fn(b, ln + ".err", oc.exc_json())
        if res.kind != "v" or not flat:
            if isinstance(res.value, dict) and "!fut" in res.value:
                # a map (not flat_map) function returning a future: the future object itself is the value
                return V(["!future", "Future"])
            return res
        v = res.value
        if isinstance(v, dict) and "!fut" in v:
            inner = v["!fut"]
            if inner.kind == "src":
                # a future the program completes later: {"name": ["value"|"error"|"cancel"|"never"]}
                spec = getattr(self, "inner", {}).get(inner.value, ["never"])
                if spec[0] == "value":
                    return V(["sv", inner.value])
                if spec[0] == "error":
                    return E(spec[1] if len(spec) > 1 else "E2", ["src", inner.value])
                if spec[0] == "cancel":
                    return Outcome("c")
                return Outcome("pending")
            return inner
        return E("TypeError", None)

    def _fn(self, b, name, arg):
        k = b[0]
        if k == "app":
            return V([b[1], arg])
        if k == "raisearg":
            return E(b[1], [name, origin(arg)])
        if k == "raiseif":
            org = origin(arg)
            if org is not None and org[1] == b[1]:
                return self._fn(["raisearg", b[2]], name, arg)
            return self._fn(b[3], name, arg)
        if k == "retexc":
            return V(arg)
        if k == "reraise":
            return E(arg[1], arg[2])  # the very same exception again
        if k == "ret":
            return V(b[1])
        if k == "compose":
            cur = V(arg)
            for sb in b[1]:
                cur = self._fn(sb, name, cur.value)
                if cur.kind != "v":
                    return cur
            return cur
        if k == "fut" and b[1] == "src":
            return V({"!fut": Outcome("src", value=b[2])})
        if k == "nonfut":
            return V(["nonfuture", name])
        if k == "futarg":
            if b[1] == "done":
                return V({"!fut": V(["fm", arg])})
            if b[1] == "err":
                return V({"!fut": E(b[2] if len(b) > 2 else "E2", [name, origin(arg)])})
            if b[1] == "cancelled":
                return V({"!fut": Outcome("c")})
        raise ValueError("model: unsupported layer-function behaviour %r" % (b,))
