"""Stand-in for prometheus_client (not installable offline): just enough for
more_executors._impl.metrics.prometheus, with readable values and per-child minimum tracking."""

REGISTRY = {}


class _Child(object):
    def __init__(self):
        self.value = 0
        self.min_value = 0

    def inc(self, amount=1):
        self.value += amount

    def dec(self, amount=1):
        self.value -= amount
        if self.value < self.min_value:
            self.min_value = self.value


class _Metric(object):
    kind = "metric"

    def __init__(self, name, documentation="", labelnames=(), namespace="", **_kw):
        self.name = (namespace + "_" if namespace else "") + name
        self.labelnames = tuple(labelnames)
        self.children = {}
        REGISTRY[self.name] = self

    def labels(self, *args, **kwargs):
        if args:
            kwargs = dict(zip(self.labelnames, args))
        if set(kwargs) != set(self.labelnames):
            raise ValueError("wrong labels for %s: %r" % (self.name, kwargs))
        key = tuple(sorted(kwargs.items()))
        c = self.children.get(key)
        if c is None:
            c = self.children[key] = _Child()
        return c


class Counter(_Metric):
    kind = "counter"


class Gauge(_Metric):
    kind = "gauge"


def dump():
    out = {}
    for name, m in REGISTRY.items():
        for key, c in m.children.items():
            out[name + "{" + ",".join("%s=%s" % kv for kv in key) + "}"] = [c.value, c.min_value]
    return out


def reset():
    for m in REGISTRY.values():
        m.children.clear()
