"""Shared machinery for the combinator checks (C14, C15, C16).

A combinator case:
    {"comb": "f_or", "n": 3,
     "args": [0, 1, 1, 2]            argument list as input indices (duplicates allowed)
     "nocancel": [1],                inputs wrapped in f_nocancel
     "predone": {"0": ["value", 1]}  inputs completed before the combinator is built
     "threads": [[ev...], [ev...]]   ev = ["c", input, kind, payload] | ["x"] (cancel the output)
     "tape": [...], "clock": "exact"}
"""
import itertools

import progs
import world


def src(i):
    return "a%d" % i


def build_prog(case, expr):
    setup = []
    for i, spec in sorted(case.get("predone", {}).items()):
        setup.append(["complete", src(int(i))] + list(spec))
    setup.append(["expr", "out", expr])
    threads = []
    for evs in case["threads"]:
        ops = []
        for ev in evs:
            if ev[0] == "c":
                ops.append(["complete", src(ev[1])] + list(ev[2:]))
            elif ev[0] == "x":
                ops.append(["cancel", "out"])
        threads.append(ops)
    final = [["state", "out"]] + [["state", src(i)] for i in range(case["n"])]
    return {"setup": setup, "threads": threads, "final": final, "settle": 1}


def outcome_of_spec(spec, name):
    k = spec[0]
    if k == "value":
        return ("v", world._thaw(spec[1]) if len(spec) > 1 else ("sv", name))
    if k == "error":
        return ("e", ("src", name))
    if k in ("cancel", "cancel_plain"):
        return ("c",)
    if k == "fn":
        return ("v", "fn")
    if k == "futvalue":
        return ("v", ["!future", name + ".val"])
    raise ValueError(spec)


def observe(case, s, w):
    """Extract from the history what the oracles need."""
    h = world.History(s, w)
    obs = {"end": s.end_reason, "events": [], "cancel_calls": {}, "final": {}, "construct": None, "logs": list(s.log_records)}
    for o in h.oplist():
        op = o["op"]
        if op[0] == "expr":
            obs["construct"] = o
        elif op[0] == "complete" and op[2] == "running":
            continue  # marks the input as being worked on; it has not finished
        elif op[0] == "complete":
            idx = int(op[1][1:])
            noop = o["result"] == ["ok", "noop"] or (o["result"][0] == "ok" and o["result"][1] is False)
            obs["events"].append({"kind": "c", "input": idx, "spec": op[2:], "call": o["call_seq"], "ret": o["ret_seq"],
                                  "noop": noop, "thread": o["thread"], "pre": obs["construct"] is None})
        elif op[0] == "cancel" and op[1] == "out":
            obs["events"].append({"kind": "x", "call": o["call_seq"], "ret": o["ret_seq"], "result": o["result"], "thread": o["thread"]})
        elif op[0] == "state":
            obs["final"][op[1]] = o["result"][1] if o["result"][0] == "ok" else o["result"]
    for ev in s.events:
        if ev[3] == "fcancel_call":
            obs["cancel_calls"].setdefault(ev[4]["fut"], []).append(ev[0])
    obs["unfinished"] = [o["op"] for o in h.unfinished_ops()]
    return obs


def out_state(final):
    """Normalise a ["state", ...] result to ("v", value) / ("e", tag) / ("c",) / ("pending",)."""
    if not isinstance(final, dict):
        return ("?", final)
    if not final["done"]:
        return ("pending",)
    if final["cancelled"]:
        return ("c",)
    if "exc" in final:
        return ("e", world._thaw(final["exc"][2]) if final["exc"][2] is not None else final["exc"][1])
    return ("v", world._thaw(final["value"]))


def linearisations(events, limit=5000):
    """All total orders of post-construction events consistent with real time
    (A before B whenever A returned before B was called)."""
    evs = [e for e in events if not e.get("pre")]
    n = len(evs)
    if n == 0:
        yield []
        return
    srt = sorted(evs, key=lambda e: e["call"])
    if all(srt[i]["ret"] is not None and srt[i]["ret"] < srt[i + 1]["call"] for i in range(n - 1)):
        yield srt  # fully sequential: exactly one linearisation
        return
    before = [[evs[i]["ret"] is not None and evs[i]["ret"] < evs[j]["call"] for j in range(n)] for i in range(n)]
    count = [0]

    def rec(done, order):
        if count[0] >= limit:
            return
        if len(order) == n:
            count[0] += 1
            yield [evs[i] for i in order]
            return
        for i in range(n):
            if i in done:
                continue
            if any(before[j][i] and j not in done for j in range(n)):
                continue
            done.add(i)
            order.append(i)
            for r in rec(done, order):
                yield r
            order.pop()
            done.discard(i)

    for r in rec(set(), []):
        yield r


def concurrent(events):
    evs = [e for e in events if not e.get("pre")]
    for a, b in itertools.combinations(evs, 2):
        if not (a["ret"] is not None and a["ret"] < b["call"]) and not (b["ret"] is not None and b["ret"] < a["call"]):
            return True
    return False


def run(case, expr):
    prog = build_prog(case, expr)
    c = {"prog": prog, "tape": case.get("tape", []), "clock": case.get("clock", "exact"),
         "max_steps": case.get("max_steps", 60000)}
    s, w = progs.run_case(c)
    return s, w, observe(case, s, w)
