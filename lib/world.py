"""The program mini-language interpreter shared by all engine-mode checks.

A *program* is a JSON-able dict

    {"setup":  [op...],            run by client thread t0 before the others start
     "threads": [[op...], ...],    thread 0 is t0 itself; the others are spawned by it
     "final":  [op...],            run by t0 after all others ended and after `settle`
     "settle": 50.0}               virtual seconds t0 sleeps before `final`

Everything the program does, and everything scripted user code sees, is
recorded as events (seq, vtime, thread, kind, data) in World.events.  Because
only one controlled thread runs at a time the seq numbers are a total order.
"""
import gc
import weakref
import concurrent.futures as cf
from concurrent.futures import Future, Executor, CancelledError
from concurrent.futures import TimeoutError as FTimeoutError

import os
import sys
import vsched

if os.environ.get("VERIF_PROM") == "1":
    os.environ["MORE_EXECUTORS_PROMETHEUS"] = "1"
    vsched.install(os.environ.get("VERIF_REPO", "/repo"),
                   extra_path=os.path.join(os.path.dirname(os.path.abspath(__file__)), "standin"))
else:
    os.environ["MORE_EXECUTORS_PROMETHEUS"] = "0"
    vsched.install(os.environ.get("VERIF_REPO", "/repo"))

from more_executors import Executors
from more_executors import futures as mf
from more_executors.retry import RetryPolicy, ExceptionRetryPolicy

try:
    from concurrent.futures import InvalidStateError
except ImportError:  # pragma: no cover
    InvalidStateError = RuntimeError


_HASH_SERIAL = [0]
HASH_SALT = [0]  # case["hsalt"]: a different (still deterministic) iteration order for sets of futures


def _install_deterministic_identity():
    """Future objects hash (and the stdlib's wait() orders its lock acquisitions) by memory address, so the iteration
    order of a set of futures - CancelOnShutdownExecutor._futures, the sets inside concurrent.futures.wait - changes
    from process to process and a case would not replay.  Give every future a serial number at its first hash() instead
    (deterministic given the schedule; equality stays identity)."""
    import concurrent.futures._base as base

    if getattr(base.Future, "_verif_hash", False):
        return

    def __hash__(self):
        d = self.__dict__
        h = d.get("_verif_h")
        if h is None:
            _HASH_SERIAL[0] += 1
            h = _HASH_SERIAL[0]
            if HASH_SALT[0]:
                h = (h * 40503 + HASH_SALT[0] * 7919) % 65521
            d["_verif_h"] = h
        return h

    base.Future.__hash__ = __hash__
    base.Future._verif_hash = True

    class _AcquireFutures(base._AcquireFutures):
        def __init__(self, futures):
            self.futures = sorted(futures, key=hash)

    base._AcquireFutures = _AcquireFutures


def _install_cancel_recorder():
    """Record every cancel() call arriving at a library future (observation from outside, no source hook)."""
    from more_executors._impl import common

    if getattr(common._Future.cancel, "_verif_wrapped", False):
        return
    orig = common._Future.cancel

    def cancel(self):
        s = vsched.cur_sched()
        if s is None or s.aborting:
            return orig(self)
        pre = self._state
        s.record("lcancel_call", fid=id(self), cls=type(self).__name__, pre=pre)
        r = orig(self)
        s.record("lcancel_ret", fid=id(self), result=r, pre=pre)
        return r

    cancel._verif_wrapped = True
    common._Future.cancel = cancel

    # plain stdlib futures (thread pool / sync executor): record cancel() on exactly that class
    import concurrent.futures._base as base

    sorig = base.Future.cancel

    def scancel(self):
        if type(self) is not base.Future:
            return sorig(self)
        s = vsched.cur_sched()
        if s is None or s.aborting:
            return sorig(self)
        pre = self._state
        s.record("lcancel_call", fid=id(self), cls="Future", pre=pre)
        r = sorig(self)
        s.record("lcancel_ret", fid=id(self), result=r, pre=pre)
        return r

    base.Future.cancel = scancel


_install_cancel_recorder()
_install_deterministic_identity()


class E0(Exception):
    pass


class E1(E0):
    pass


class E2(Exception):
    pass


class E3(ValueError):
    pass


class Fault(Exception):
    """Injected fault in user code (C18)."""


class EF(Exception):
    """An exception whose instances are FALSY (an "error collection" raised empty): code that writes
    `if exception:` where it means `if exception is not None:` mistakes it for success."""

    def __bool__(self):
        return False

    def __len__(self):
        return 0


class EB(BaseException):
    """A user exception that is NOT an Exception (as SystemExit / KeyboardInterrupt / a custom abort class are).  Only raised
    by callables running on a thread pool, whose worker stores any BaseException on the future: the layers above see an
    ordinary failed future."""


class CE(cf.CancelledError):
    """A callable that FAILS with a CancelledError instance (it called result() on some other, cancelled future): its own
    future is failed, not cancelled."""


class EQ(Exception):
    """An exception type with VALUE equality (a dataclass-like error): two distinct instances compare equal."""

    def __eq__(self, other):
        return isinstance(other, EQ)

    def __hash__(self):
        return 7


class ISE(InvalidStateError):
    """User code failing with (a subclass of) the very exception type the library tolerates from its own set_result() races."""


class SI(StopIteration):
    """User code failing with StopIteration (next() on an exhausted iterator): an ordinary exception for the caller, but one that
    iterator plumbing (map(), generators) silently eats if the library routes the call through it."""


EXC = {"E0": E0, "E1": E1, "E2": E2, "E3": E3, "Fault": Fault, "EF": EF, "EB": EB, "CE": CE, "EQ": EQ, "ISE": ISE, "SI": SI}


def verif_orig_raise_site(e):
    raise e


def verif_unrelated_site():
    raise KeyError("an unrelated exception being handled while a future is completed")


def jsonable(v, depth=0):
    if depth > 14:
        return "..."
    if isinstance(v, (str, int, float, bool)) or v is None:
        return v
    if isinstance(v, (list, tuple)):
        return [jsonable(x, depth + 1) for x in v]
    if isinstance(v, dict):
        return dict((str(k), jsonable(x, depth + 1)) for k, x in sorted(v.items(), key=lambda kv: str(kv[0])))
    if isinstance(v, BaseException):
        return ["!exc", type(v).__name__, jsonable(getattr(v, "tag", None), depth + 1)]
    if isinstance(v, Future):
        return ["!future", getattr(v, "name", type(v).__name__)]
    return ["!obj", type(v).__name__]


class RecFuture(Future):
    """A stdlib Future that records every cancel() it receives."""

    def __init__(self, world, name):
        Future.__init__(self)
        self.w = world
        self.name = name

    def cancel(self):
        w = self.w
        pre = self._state
        w.rec("fcancel_call", fut=self.name, done=self.done(), pre=pre)
        r = Future.cancel(self)
        w.rec("fcancel_ret", fut=self.name, result=r, pre=pre)
        return r


class DuckFuture(object):
    """Quacks like a future (add_done_callback, result, exception, cancel, ...) without being a concurrent.futures.Future."""

    def __init__(self, inner):
        self._inner = inner

    def add_done_callback(self, fn):
        self._inner.add_done_callback(lambda _f: fn(self))

    def result(self, timeout=None):
        return self._inner.result(timeout)

    def exception(self, timeout=None):
        return self._inner.exception(timeout)

    def cancel(self):
        return self._inner.cancel()

    def cancelled(self):
        return self._inner.cancelled()

    def running(self):
        return self._inner.running()

    def done(self):
        return self._inner.done()


class ManualExecutor(Executor):
    """Base executor whose jobs run only when the program says so."""

    def __init__(self, world, name):
        self.w = world
        self.name = name
        self.jobs = []
        self.shut = False
        self.shutdown_calls = []
        self.fail_next = 0  # injected fault: the next n submit() calls raise OSError, as a pool that cannot start a thread does

    def submit(self, fn, *args, **kwargs):
        w = self.w
        if self.fail_next:
            self.fail_next -= 1
            w.rec("base_submit_failed", ex=self.name)
            raise OSError("can't start new thread")
        if self.shut:
            w.rec("base_submit_refused", ex=self.name)
            raise RuntimeError("cannot schedule new futures after shutdown")
        n = len(self.jobs)
        fut = RecFuture(w, "%s.j%d" % (self.name, n))
        job = [fn, args, kwargs, fut, "queued"]
        # (no scheduling point between accepting the job and recording it)
        self.jobs.append(job)
        w.futs[fut.name] = fut
        w.rec("base_submit", ex=self.name, job=n, fn=getattr(fn, "name", None), fut=fut.name)

        def _drop_if_cancelled(f, job=job):
            if f.cancelled():
                job[0] = job[1] = job[2] = job[3] = None
                job[4] = "cancelled"

        fut.add_done_callback(_drop_if_cancelled)
        return fut

    def run_job(self, n):
        w = self.w
        if n >= len(self.jobs):
            w.rec("job_missing", ex=self.name, job=n)
            return "missing"
        job = self.jobs[n]
        fn, args, kwargs, fut, state = job
        if state == "cancelled":
            w.rec("job_skipped", ex=self.name, job=n)
            return "skipped"
        if state != "queued":
            return "already"
        if not fut.set_running_or_notify_cancel():
            job[4] = "skipped"
            w.rec("job_skipped", ex=self.name, job=n)
            return "skipped"
        job[4] = "running"
        w.rec("job_start", ex=self.name, job=n)
        try:
            r = fn(*args, **kwargs)
        except Exception as e:
            job[4] = "done"
            job[0] = job[1] = job[2] = job[3] = None
            fut.set_exception(e)
            w.rec("job_end", ex=self.name, job=n)
            return "raised"
        job[4] = "done"
        job[0] = job[1] = job[2] = job[3] = None
        fut.set_result(r)
        r = None
        w.rec("job_end", ex=self.name, job=n)
        return "returned"

    def shutdown(self, wait=True, **kwargs):
        self.shutdown_calls.append((wait, dict(kwargs)))
        self.w.rec("base_shutdown", ex=self.name, wait=wait, kwargs=jsonable(kwargs))
        self.shut = True


class TapExecutor(Executor):
    """Transparent executor that records what passes through it."""

    def __init__(self, world, name, inner, coalesce=False):
        self.w = world
        self.name = name
        self.inner = inner
        self.futs = []
        self.shutdown_calls = []
        # a request-coalescing delegate: every second submit() is answered with the previous future if that is still not done
        # (returning the same Future object from two submit() calls is unusual but legal for an Executor)
        self.coalesce = coalesce
        self.shutdown_raises = False

    def submit(self, fn, *args, **kwargs):
        w = self.w
        # how many of the futures handed out earlier are not done at this very instant (state read without taking the
        # future's lock: the done-callback that records tap_done may lag behind the state change by a pre-emption)
        nd = sum(1 for q in self.futs if q._state not in ("FINISHED", "CANCELLED", "CANCELLED_AND_NOTIFIED"))
        w.rec("tap_submit", tap=self.name, fn=getattr(fn, "name", None), not_done=nd)
        if self.coalesce and len(self.futs) % 2 == 1 and self.futs[-1]._state in ("PENDING", "RUNNING"):
            f = self.futs[-1]
            self.futs.append(f)
            idx = len(self.futs) - 1
            w.rec("tap_submitted", tap=self.name, fn=getattr(fn, "name", None), idx=idx, coalesced=True)
            tname, fname = self.name, getattr(fn, "name", None)
            f.add_done_callback(lambda _f: w.rec("tap_done", tap=tname, fn=fname, idx=idx, cancelled=_f.cancelled()))
            return f
        f = self.inner.submit(fn, *args, **kwargs)
        self.futs.append(f)
        idx = len(self.futs) - 1
        w.rec("tap_submitted", tap=self.name, fn=getattr(fn, "name", None), idx=idx)
        tname, fname = self.name, getattr(fn, "name", None)
        f.add_done_callback(lambda _f: w.rec("tap_done", tap=tname, fn=fname, idx=idx, cancelled=_f.cancelled()))
        return f

    def shutdown(self, wait=True, **kwargs):
        self.shutdown_calls.append((wait, dict(kwargs)))
        self.w.rec("tap_shutdown", tap=self.name, wait=wait, kwargs=jsonable(kwargs))
        r = self.inner.shutdown(wait, **kwargs)
        if self.shutdown_raises:
            # (what a thread pool does when shutdown(wait=True) reaches it from one of its own workers)
            raise RuntimeError("cannot join current thread")
        return r


class Fn(object):
    """Scripted, recording user function.

    behaviours: list of behaviour specs; invocation k uses behaviours[min(k, last)].
      ["ret", v]              return v
      ["tag"]                 return ("c", name, k)            (unique tagged value)
      ["app", label]          return (label, args[0])          (map-style wrapper)
      ["echo"]                return [args, sorted kwargs]
      ["raise", "E1"]         raise a fresh tagged instance
      ["reraise"]             raise args[0] (an exception instance) again
      ["retexc"]              return args[0]
      ["fut", kind, payload]  return a future: done/err/cancelled/src(name)/pending
      ["gate", g, inner]      wait for gate g to open, then behave as inner
      ["vsleep", d, inner]    sleep d virtual seconds, then inner
      ["submit", ex, fut, spec, inner]   nested submission, then inner
      ["retfut", name]        return previously stored future `name`
      ["cancel", fut, inner]  cancel future, then inner
    """

    def __init__(self, world, name, behaviours):
        self.w = world
        self.name = name
        self.behaviours = behaviours
        self.calls = 0

    def __repr__(self):
        return "<Fn %s>" % self.name

    def __call__(self, *args, **kwargs):
        w = self.w
        k = self.calls
        self.calls += 1
        b = self.behaviours[min(k, len(self.behaviours) - 1)]
        extra = {}
        if self.name.endswith(".cancelfn") and args:
            # a cancel function: note the state, at this very instant, of the future it is being consulted about
            import models
            org = models.origin(jsonable(args[0]))
            subj = w.futs.get(org[1][:-3]) if org and isinstance(org[1], str) and org[1].endswith(".fn") else None
            if subj is not None:
                extra["subject_state"] = subj._state
        w.rec("call", fn=self.name, k=k, args=jsonable(args), kwargs=jsonable(kwargs), **extra)
        try:
            r = self._do(b, k, args, kwargs)
        except (Exception, EB) as e:
            w.rec("raise", fn=self.name, k=k, exc=jsonable(e))
            raise
        w.rec("ret", fn=self.name, k=k, value=jsonable(r))
        return r

    def _do(self, b, k, args, kwargs):
        w = self.w
        kind = b[0]
        if kind == "ret":
            return _thaw(b[1])
        if kind == "tag":
            return ("c", self.name, k)
        if kind == "app":
            return (b[1], args[0])
        if kind == "echo":
            return (tuple(args), tuple(sorted(kwargs.items())))
        if kind == "retobj":
            # a fresh weakref-able result object; only the future (and whoever reads it) holds it
            o = WeakObj(self.name + ".result")
            w.weak[self.name[:-3] + ".result"] = weakref.ref(o)
            return o
        if kind == "badstr":
            # a result object that cannot be printed: str() and repr() of it raise
            return BadStr(("c", self.name, k))
        if kind == "raise":
            e = EXC[b[1]]()
            e.tag = ("c", self.name, k)
            w.raised.setdefault(jsonable(e.tag).__repr__(), []).append(e)
            raise e
        if kind == "reraise":
            raise args[0]
        if kind == "retexc":
            return args[0]
        if kind == "fut":
            return w.make_future(b[1], b[2] if len(b) > 2 else None, "%s#%d" % (self.name, k))
        if kind == "resolve_via_poll":
            # ["resolve_via_poll", pollfn name, inner]: a cancel function that resolves the very future it is asked about, through
            # the PollDescriptor the poll function was given for it, and then behaves as `inner`
            pf = w.fns.get(b[1])
            for d in list(getattr(pf, "last", []) or []):
                if d.result == args[0]:
                    w.rec("cancelfn_resolves", fn=self.name, value=jsonable(("stopped", args[0])))
                    d.yield_result(("stopped", args[0]))
            return self._do(b[2], k, args, kwargs)
        if kind == "compose":
            v = args[0]
            for sub_b in b[1]:
                v = self._do(sub_b, k, (v,), {})
            return v
        if kind == "nonfut":
            return ("nonfuture", self.name)
        if kind == "raisearg":
            # layer-function fault whose tag depends on the argument only (not on call order)
            import models
            tag = (self.name, _thaw(models.origin(jsonable(args[0]))))
            e = EXC[b[1]]()
            e.tag = tag
            w.raised.setdefault(jsonable(tag).__repr__(), []).append(e)
            raise e
        if kind == "raiseif":
            # ["raiseif", fnname, "Fault", else_behaviour]: fault only for the submission whose callable is fnname
            import models
            org = models.origin(jsonable(args[0]))
            if org is not None and org[1] == b[1]:
                return self._do(["raisearg", b[2]], k, args, kwargs)
            return self._do(b[3], k, args, kwargs)
        if kind == "futarg":
            import models
            if b[1] == "done":
                return mf.f_return(("fm", args[0]))
            if b[1] == "err":
                tag = (self.name, _thaw(models.origin(jsonable(args[0]))))
                e = EXC[b[2] if len(b) > 2 else "E2"]()
                e.tag = tag
                w.raised.setdefault(jsonable(tag).__repr__(), []).append(e)
                return mf.f_return_error(e)
            if b[1] == "cancelled":
                return mf.f_return_cancelled()
        if kind == "gate":
            w.gate(b[1]).wait(1e9)
            return self._do(b[2], k, args, kwargs)
        if kind == "vsleep":
            vsched.v_sleep(b[1])
            return self._do(b[2], k, args, kwargs)
        if kind == "submit":
            w.exec_op(["submit", b[1], b[2], b[3]])
            return self._do(b[4], k, args, kwargs)
        if kind == "retfut":
            return w.futs[b[1]]
        if kind == "cancel":
            w.exec_op(["cancel", b[1]])
            return self._do(b[2], k, args, kwargs)
        if kind == "op":
            w.exec_op(b[1])
            return self._do(b[2], k, args, kwargs)
        raise ValueError("bad behaviour %r" % (b,))


def _thaw(v):
    if isinstance(v, list):
        return tuple(_thaw(x) for x in v)
    return v


class ScriptPolicy(RetryPolicy):
    """Retry policy following a script: should=[True|False|'raise'...], sleep=[num|'raise'...]"""

    def __init__(self, world, name, should, sleep):
        self.w = world
        self.name = name
        self.should = should
        self.sleep = sleep

    def should_retry(self, attempt, future):
        w = self.w
        b = self.should[min(attempt - 1, len(self.should) - 1)] if attempt >= 1 else False
        w.rec("policy_should", policy=self.name, attempt=attempt, fdone=future.done(), value=b)
        if isinstance(b, list) and b[0] == "slow":
            # ["slow", d, answer]: the policy takes d virtual seconds to make up its mind
            vsched.v_sleep(b[1])
            b = b[2]
        if b == "raise":
            raise Fault("should_retry")
        return b

    def sleep_time(self, attempt, future):
        w = self.w
        b = self.sleep[min(attempt - 1, len(self.sleep) - 1)] if attempt >= 1 else 0
        w.rec("policy_sleep", policy=self.name, attempt=attempt, value=b)
        if b == "raise":
            raise Fault("sleep_time")
        return b


class RecExceptionPolicy(ExceptionRetryPolicy):
    """The library's ExceptionRetryPolicy with calls recorded."""

    def __init__(self, world, name, **kw):
        ExceptionRetryPolicy.__init__(self, **kw)
        self.w = world
        self.name = name

    def should_retry(self, attempt, future):
        r = ExceptionRetryPolicy.should_retry(self, attempt, future)
        self.w.rec("policy_should", policy=self.name, attempt=attempt, fdone=future.done(), value=bool(r))
        return r

    def sleep_time(self, attempt, future):
        r = ExceptionRetryPolicy.sleep_time(self, attempt, future)
        self.w.rec("policy_sleep", policy=self.name, attempt=attempt, value=r)
        return r


def find_sub(v):
    """Find the submission tag ("c", fnname, k) inside a (possibly wrapped) value."""
    import models
    return models.origin(jsonable(v))


def _find_sub_old(v):
    if isinstance(v, (tuple, list)):
        if len(v) == 3 and v[0] == "c":
            return v
        for x in v:
            r = find_sub(x)
            if r is not None:
                return r
    return None


class PollFn(object):
    """Scripted poll function.

    per_sub: {fn name: {"after": n, "then": ["res", v] | ["exc", "E1"] | ["res2", v1, v2]}}
        yield for a descriptor on its n-th sighting (n >= 1); default: after=1, res
    calls:   list of per-call extras: {"raise": "E1"} / {"ret": interval}; call k uses calls[min(k,last)]
    """

    def __init__(self, world, name, per_sub, calls, keep=False):
        self.w = world
        self.name = name
        self.keep = keep
        self.last = []
        self.per_sub = per_sub or {}
        self.calls = [c for c in (calls or [{}]) if "at" not in c] or [{}]
        self.at = [[c["at"], dict((k, v) for k, v in c.items() if k != "at")] for c in (calls or []) if "at" in c]
        self.n = 0
        self.seen = {}

    def __call__(self, descriptors):
        w = self.w
        k = self.n
        self.n += 1
        extra = self.calls[min(k, len(self.calls) - 1)]
        for ent in self.at:
            # [t, extra]: the first call at or after virtual time t behaves as `extra` (once)
            if len(ent) == 2 and vsched.v_monotonic() >= ent[0]:
                ent.append("used")
                extra = ent[1]
                break
        results = [d.result for d in descriptors]
        if self.keep:
            self.last = list(descriptors)  # (user code may keep descriptors, e.g. to resolve a future from its cancel function)
        w.rec("poll_call", fn=self.name, k=k, results=jsonable(results))
        try:
            if "vsleep" in extra:
                vsched.v_sleep(extra["vsleep"])
            for d in descriptors:
                sub = find_sub(d.result)
                key = sub[1] if sub else None
                skey = (key, sub[2] if sub else None)
                self.seen[skey] = self.seen.get(skey, 0) + 1
                spec = self.per_sub.get(key, {})
                after = spec.get("after", 1)
                if after is None or self.seen[skey] < after:
                    continue
                then = spec.get("then", ["res"])
                if then[0] == "res":
                    val = ("p", d.result) if len(then) < 2 else _thaw(then[1])
                    w.rec("poll_yield", fn=self.name, k=k, sub=key, value=jsonable(val))
                    d.yield_result(val)
                elif then[0] == "exc":
                    e = EXC[then[1]]()
                    e.tag = (self.name, key)
                    w.raised.setdefault(jsonable(e.tag).__repr__(), []).append(e)
                    w.rec("poll_yield_exc", fn=self.name, k=k, sub=key, exc=jsonable(e))
                    d.yield_exception(e)
                elif then[0] == "res2":
                    w.rec("poll_yield", fn=self.name, k=k, sub=key, value=jsonable(_thaw(then[1])))
                    d.yield_result(_thaw(then[1]))
                    w.rec("poll_yield", fn=self.name, k=k, sub=key, value=jsonable(_thaw(then[2])), second=True)
                    d.yield_result(_thaw(then[2]))
            if "op" in extra:
                w.exec_op(extra["op"])
            if "raise" in extra:
                e = EXC[extra["raise"]]()
                e.tag = (self.name, "call", k)
                w.raised.setdefault(jsonable(e.tag).__repr__(), []).append(e)
                raise e
        except Exception as e:
            w.rec("poll_raise", fn=self.name, k=k, exc=jsonable(e))
            raise
        w.rec("poll_ret", fn=self.name, k=k)
        return extra.get("ret")


class World(object):
    def __init__(self, sched):
        self.s = sched
        self.exs = {}  # name -> list of executors per level (last = outermost)
        self.futs = {}
        self.fns = {}
        self.gates = {}
        self.raised = {}
        self.refs = {}
        self.op_counter = 0
        self.errors = []  # harness-level surprises
        self.weak = {}
        self.objs = {}

    # -- recording
    def rec(self, kind, **data):
        return self.s.record(kind, **data)

    @property
    def events(self):
        return self.s.events

    def gate(self, name):
        g = self.gates.get(name)
        if g is None:
            g = self.gates[name] = vsched.CEvent()
        return g

    def fn(self, name, behaviours):
        if behaviours is None:
            return None
        f = Fn(self, name, behaviours)
        self.fns[name] = f
        return f

    def make_future(self, kind, payload, name):
        if kind == "done":
            return mf.f_return(_thaw(payload) if payload is not None else ("fv", name))
        if kind == "err":
            e = EXC[payload or "E2"]()
            e.tag = ("futerr", name)
            self.raised.setdefault(jsonable(e.tag).__repr__(), []).append(e)
            return mf.f_return_error(e)
        if kind == "cancelled":
            return mf.f_return_cancelled()
        if kind == "duck":
            # a future-like object that is NOT a concurrent.futures.Future subclass (as an asyncio future or a third-party handle)
            return DuckFuture(mf.f_return(_thaw(payload) if payload is not None else ("fv", name)))
        if kind == "src":
            return self.src(payload)
        if kind == "pending":
            return self.src("pend." + name)
        raise ValueError(kind)

    def src(self, name):
        f = self.futs.get(name)
        if f is None:
            f = self.futs[name] = RecFuture(self, name)
        return f

    # -- executor stacks
    def build(self, name, spec):
        base = spec["base"]
        kw = {}
        if base.get("name") is not None:
            kw["name"] = base["name"]
        if base["kind"] == "sync":
            ex = Executors.sync(**kw)
        elif base["kind"] == "pool":
            ex = Executors.thread_pool(max_workers=base.get("workers", 1), **kw)
        elif base["kind"] == "manual":
            ex = ManualExecutor(self, name + ".base")
        else:
            raise ValueError(base)
        levels = [ex]
        for i, layer in enumerate(spec.get("layers", [])):
            if layer.get("tap"):
                ex = TapExecutor(self, "%s.tap%d" % (name, i), ex, coalesce=bool(layer.get("coalesce")))
                ex.shutdown_raises = bool(layer.get("delegate_shutdown_raises"))
                self.exs[ex.name] = [ex]
            if spec.get("methods"):
                ex = self.add_layer_method(ex, layer, "%s.L%d" % (name, i))
            else:
                ex = self.add_layer(ex, layer, "%s.L%d" % (name, i))
            levels.append(ex)
        if spec.get("toptap"):
            ex = TapExecutor(self, "%s.top" % name, ex)
            levels.append(ex)
        self.exs[name] = levels
        return ex

    def add_layer(self, ex, layer, lname):
        k = layer["kind"]
        kw = {}
        if layer.get("name") is not None:
            kw["name"] = layer["name"]
        if k == "map":
            return Executors.with_map(ex, self.fn(lname + ".fn", layer.get("fn")),
                                      error_fn=self.fn(lname + ".err", layer.get("err")), **kw)
        if k == "flat_map":
            return Executors.with_flat_map(ex, self.fn(lname + ".fn", layer.get("fn")),
                                           error_fn=self.fn(lname + ".err", layer.get("err")), **kw)
        if k == "retry":
            return Executors.with_retry(ex, retry_policy=self.policy(lname + ".policy", layer.get("policy")), **kw)
        if k == "poll":
            pf = PollFn(self, lname + ".poll", layer.get("per_sub"), layer.get("calls"), keep=bool(layer.get("keep_descriptors")))
            self.fns[pf.name] = pf
            return Executors.with_poll(ex, pf, cancel_fn=self.fn(lname + ".cancelfn", layer.get("cancel")),
                                       default_interval=layer.get("interval", 1.0), **kw)
        if k == "throttle":
            c = layer.get("count")
            if isinstance(c, dict):
                c = self.fn(lname + ".count", c["script"])
            return Executors.with_throttle(ex, count=c, block=layer.get("block", False), **kw)
        if k == "timeout":
            return Executors.with_timeout(ex, layer["t"], **kw)
        if k == "cos":
            return Executors.with_cancel_on_shutdown(ex, **kw)
        if k == "asyncio":
            return Executors.with_asyncio(ex, **kw)
        raise ValueError(layer)

    def make_callable(self, name, spec):
        """spec = {"kind": "fn"|"partial"|"obj", "script": [...]}"""
        import functools
        base = Fn(self, name + ".fn", spec.get("script", [["echo"]]))
        self.fns[base.name] = base
        kind = spec.get("kind", "fn")
        if kind == "fn":
            return base
        if kind == "partial":
            return functools.partial(base, "bound-arg", pk="pv")
        if kind == "obj":
            return CallableObj(base)
        if kind == "falsy":
            # a callable OBJECT that is falsy (an empty pipeline with __len__() == 0, a flag object with a false __bool__)
            return FalsyCallableObj(base)
        if kind == "bound":
            # a callable that is itself bound to another (synchronous) executor
            return Executors.sync(name="inner").bind(base)
        raise ValueError(spec)

    def add_layer_method(self, target, layer, lname):
        """Apply a layer through the with_* METHOD of an executor or bound callable (name propagation path)."""
        k = layer["kind"]
        kw = {}
        if layer.get("name") is not None:
            kw["name"] = layer["name"]
        if k == "map":
            return target.with_map(self.fn(lname + ".fn", layer.get("fn")), error_fn=self.fn(lname + ".err", layer.get("err")), **kw)
        if k == "flat_map":
            return target.with_flat_map(self.fn(lname + ".fn", layer.get("fn")), error_fn=self.fn(lname + ".err", layer.get("err")), **kw)
        if k == "retry":
            return target.with_retry(retry_policy=self.policy(lname + ".policy", layer.get("policy")), **kw)
        if k == "poll":
            pf = PollFn(self, lname + ".poll", layer.get("per_sub"), layer.get("calls"), keep=bool(layer.get("keep_descriptors")))
            self.fns[pf.name] = pf
            return target.with_poll(pf, default_interval=layer.get("interval", 1.0), **kw)
        if k == "throttle":
            return target.with_throttle(count=layer.get("count"), **kw)
        if k == "timeout":
            return target.with_timeout(layer["t"], **kw)
        if k == "cos":
            return target.with_cancel_on_shutdown(**kw)
        raise ValueError(layer)

    def policy(self, name, spec):
        if spec is None:
            return RecExceptionPolicy(self, name)
        if spec["type"] == "exc":
            kw = {}
            for k in ("max_attempts", "sleep", "exponent", "max_sleep"):
                if k in spec:
                    kw[k] = spec[k]
            if "base" in spec:
                b = [EXC.get(x) or {"Exception": Exception, "ValueError": ValueError}[x] for x in spec["base"]]
                kw["exception_base"] = b[0] if spec.get("base_single") and len(b) == 1 else b
            return RecExceptionPolicy(self, name, **kw)
        if spec["type"] == "script":
            return ScriptPolicy(self, name, spec["should"], spec["sleep"])
        raise ValueError(spec)

    def executor(self, ref):
        # "ex" (outermost) or "ex:2" (level 2)
        if ":" in ref:
            n, lvl = ref.split(":")
            return self.exs[n][int(lvl)]
        return self.exs[ref][-1]

    # -- combinator expressions
    def expr(self, name, e):
        """Build a future from an expression spec; intermediate futures get names name/i."""
        counter = [0]

        def go(e):
            k = e[0]
            counter[0] += 1
            sub = "%s/%d" % (name, counter[0])
            if k == "src":
                return self.src(e[1])
            if k == "fut":
                return self.futs[e[1]]
            if k == "done":
                return self.make_future(e[1], e[2] if len(e) > 2 else None, sub)
            if k in ("f_or", "f_and", "f_zip"):
                args = [go(x) for x in e[1:]]
                r = getattr(mf, k)(*args)
            elif k == "f_sequence":
                r = mf.f_sequence([go(x) for x in e[1:]])
            elif k == "f_traverse":
                fn = self.fn(name + ".tfn", e[1])
                xs = list(e[2])
                r = mf.f_traverse(fn, iter(xs) if len(e) > 3 and e[3] == "iter" else xs)
            elif k in ("f_map", "f_flat_map"):
                inner = go(e[1])
                r = getattr(mf, k)(inner, self.fn(sub + ".fn", e[2]), self.fn(sub + ".err", e[3] if len(e) > 3 else None))
            elif k == "f_nocancel":
                r = mf.f_nocancel(go(e[1]))
            elif k == "f_nocancel1":
                # one shared wrapper per source future
                key = "nc:" + e[1]
                r = self.futs.get(key)
                if r is None:
                    r = self.futs[key] = mf.f_nocancel(self.src(e[1]))
                return r
            elif k == "f_proxy":
                r = mf.f_proxy(go(e[1]), **({"timeout": e[2]} if len(e) > 2 and e[2] is not None else {}))
            elif k == "f_timeout":
                r = mf.f_timeout(go(e[1]), e[2])
            elif k == "f_apply":
                fnf = go(e[1])
                args = [go(x) for x in e[2]]
                kwargs = dict((kk, go(x)) for kk, x in (e[3] if len(e) > 3 else {}).items())
                r = mf.f_apply(fnf, *args, **kwargs)
            else:
                raise ValueError(e)
            self.futs.setdefault(sub, r)
            return r

        r = go(e)
        self.futs[name] = r
        return r

    # -- ops
    def exec_op(self, op):
        self.op_counter += 1
        oid = self.op_counter
        self.rec("op_call", oid=oid, op=jsonable(op))
        try:
            res = self._op(op)
            out = ["ok", jsonable(res)]
        except CancelledError:
            out = ["cancelled"]
        except FTimeoutError:
            out = ["timeout"]
        except KeyError as e:
            if op[0] in ("cancel", "result", "exception", "add_cb", "state", "wait", "as_completed") and str(e).strip("'") in str(op):
                out = ["nofuture"]
            else:
                out = ["exc", "KeyError", str(e)[:200], None]
                self._note_exc(e, out)
        except Exception as e:  # noqa
            out = ["exc", type(e).__name__, str(e)[:200], jsonable(getattr(e, "tag", None))]
            self._note_exc(e, out)
        self.rec("op_ret", oid=oid, op0=op[0], result=out)
        return out

    def _note_exc(self, e, out):
        tb = e.__traceback__
        frames = []
        while tb is not None:
            frames.append("%s:%d:%s" % (tb.tb_frame.f_code.co_filename.split("/")[-1], tb.tb_lineno, tb.tb_frame.f_code.co_name))
            tb = tb.tb_next
        out.append(frames[-6:])

    def _op(self, op):
        k = op[0]
        if k == "build":
            self.build(op[1], op[2])
            return None
        if k == "submit":
            # ["submit", exref, futname, {"script": [...], "args": [...], "kwargs": {...}, "timeout": t?}]
            spec = op[3]
            fn = Fn(self, op[2] + ".fn", spec.get("script", [["tag"]]))
            self.fns[fn.name] = fn
            ex = self.executor(op[1])
            args = _thaw(spec.get("args", []))
            kwargs = dict(spec.get("kwargs", {}))
            if spec.get("objarg"):
                # a weakref-able argument object owned by the harness until "forget"
                o = WeakObj(op[2] + ".arg")
                self.objs[op[2] + ".arg"] = o
                self.weak[op[2] + ".arg"] = weakref.ref(o)
                args = (o,) + tuple(args)
            if "retry_policy" in spec:
                f = ex.submit_retry(self.policy(op[2] + ".policy", spec["retry_policy"]), fn, *args, **kwargs)
            elif "timeout" in spec:
                f = ex.submit_timeout(spec["timeout"], fn, *args, **kwargs)
            else:
                f = ex.submit(fn, *args, **kwargs)
            self.futs[op[2]] = f
            if spec.get("objarg"):
                self.weak[op[2] + ".future"] = weakref.ref(f)  # the returned future itself must be collectable once forgotten
            return "submitted"
        if k == "expr":
            self.expr(op[1], op[2])
            return None
        if k == "cancel":
            f = self.futs[op[1]]
            r = f.cancel()
            return r
        if k == "tapcancel":
            # cancel the idx-th future seen by a tap
            tap = self.exs[op[1]][0]
            f = tap.futs[op[2]]
            return f.cancel()
        if k == "add_cb":
            f = self.futs[op[1]]
            cb = CallbackRec(self, op[2], op[1], op[3] if len(op) > 3 else None)
            f.add_done_callback(cb)
            return None
        if k == "result":
            f = self.futs[op[1]]
            return f.result(op[2] if len(op) > 2 else None)
        if k == "exception":
            f = self.futs[op[1]]
            return f.exception(op[2] if len(op) > 2 else None)
        if k == "state":
            f = self.futs[op[1]]
            d = f.done()
            c = f.cancelled()
            r = f.running()
            out = {"done": d, "cancelled": c, "running": bool(r)}
            if d and not c:
                ex = f.exception(0)
                if ex is not None:
                    out["exc"] = jsonable(ex)
                    reg = self.raised.get(jsonable(getattr(ex, "tag", None)).__repr__())
                    out["exc_same"] = any(r is ex for r in reg) if isinstance(reg, list) else None
                    names = []
                    tb = ex.__traceback__
                    while tb is not None:
                        me = tb.tb_frame.f_locals.get("self")
                        if isinstance(me, Fn) and tb.tb_frame.f_code.co_name == "_do" and me.name not in names:
                            names.append(me.name)
                        tb = tb.tb_next
                    out["tb_fns"] = names
                    tbn = []
                    tb = ex.__traceback__
                    while tb is not None and len(tbn) < 40:
                        tbn.append(tb.tb_frame.f_code.co_name)
                        tb = tb.tb_next
                    out["tb_names"] = tbn
                else:
                    v = f.result(0)
                    out["value"] = jsonable(v)
                    out["vtype"] = "tuple" if isinstance(v, tuple) else type(v).__name__
            return out
        if k == "wait":
            fs = [self.futs[n] for n in op[1]]
            mode = {"all": cf.ALL_COMPLETED, "first": cf.FIRST_COMPLETED, "exc": cf.FIRST_EXCEPTION}[op[3] if len(op) > 3 else "all"]
            d, nd = cf.wait(fs, timeout=op[2], return_when=mode)
            names = dict((id(f), n) for n, f in zip(op[1], fs))
            return {"done": sorted(names[id(f)] for f in d), "not_done": sorted(names[id(f)] for f in nd)}
        if k == "as_completed":
            fs = [self.futs[n] for n in op[1]]
            names = dict((id(f), n) for n, f in zip(op[1], fs))
            out = []
            for f in cf.as_completed(fs, timeout=op[2]):
                out.append(names[id(f)])
            return out
        if k == "complete":
            # ["complete", futname, kind, payload]
            f = self.futs.get(op[1])
            if f is None:
                if ".base.j" in op[1]:
                    # a manual job that was never handed to the base executor
                    self.rec("complete_missing", fut=op[1])
                    return "missing"
                f = self.src(op[1])
            kind = op[2]
            try:
                if kind == "value":
                    f.set_result(_thaw(op[3]) if len(op) > 3 else ("sv", op[1]))
                elif kind == "error":
                    e = EXC[op[3] if len(op) > 3 else "E2"]()
                    e.tag = ("src", op[1])
                    self.raised.setdefault(jsonable(e.tag).__repr__(), []).append(e)
                    try:
                        verif_orig_raise_site(e)  # a real exception: it has been raised, it carries a traceback
                    except Exception:
                        pass
                    if len(op) > 4 and op[4] == "in_handler":
                        # the completing thread is busy handling a DIFFERENT exception at this moment
                        try:
                            verif_unrelated_site()
                        except KeyError:
                            f.set_exception(e)
                    else:
                        f.set_exception(e)
                elif kind == "futvalue":
                    # the VALUE of this future is itself a future (done / failed / pending): it must be handed on as a value
                    v = self.futs[op[1] + ".val"] = RecFuture(self, op[1] + ".val")
                    st = op[3] if len(op) > 3 else "done"
                    if st == "done":
                        v.set_result(("inner", op[1]))
                    elif st == "err":
                        v.set_exception(EXC["E2"]())
                    f.set_result(v)
                elif kind == "fn":
                    f.set_result(self.fn(op[1] + ".fn", op[3]))
                elif kind == "running":
                    # the input is being worked on: cancel() will be refused, but must still be requested
                    return f.set_running_or_notify_cancel()
                elif kind in ("cancel", "cancel_plain"):
                    if f.done():
                        self.rec("complete_noop", fut=op[1])
                        return "noop"
                    r = Future.cancel(f)
                    if r and kind == "cancel":
                        f.set_running_or_notify_cancel()
                    return r
            except InvalidStateError:
                # the library cancelled this source meanwhile; a pool worker
                # would skip the work item in exactly the same way
                self.rec("complete_noop", fut=op[1])
                return "noop"
            return None
        if k == "run":
            # ["run", exname, jobidx]
            base = self.exs[op[1]][0]
            return base.run_job(op[2])
        if k == "base_fail":
            # ["base_fail", exname, n]: the manual base refuses its next n submissions with OSError
            self.exs[op[1]][0].fail_next = int(op[2])
            return None
        if k == "runall":
            base = self.exs[op[1]][0]
            n = 0
            i = 0
            while i < len(base.jobs):
                if base.jobs[i][4] == "queued":
                    base.run_job(i)
                    n += 1
                i += 1
            return n
        if k == "open":
            self.gate(op[1]).set()
            return None
        if k == "sleep":
            vsched.v_sleep(op[1])
            return None
        if k == "shutdown":
            ex = self.executor(op[1])
            kw = op[3] if len(op) > 3 else {}
            if len(op) > 2 and op[2] is not None:
                ex.shutdown(op[2], **kw)
            else:
                ex.shutdown(**kw)
            return None
        if k == "notify":
            self.executor(op[1]).notify()
            return None
        if k == "drop_ex":
            self.exs.pop(op[1], None)
            for n in list(self.exs):
                if n.startswith(op[1] + "."):
                    self.exs.pop(n)
            return None
        if k == "drop_fut":
            self.futs.pop(op[1], None)
            return None
        if k == "gc":
            gc.collect()
            return None
        if k == "now":
            return vsched.v_monotonic()
        if k == "bindchain":
            # ["bindchain", name, stack_before, callable_spec, layers_after, flat]
            # executor(before).bind(fn) [or flat_bind], then with_* layers applied to the bound callable
            ex = self.build(op[1] + ".pre", op[2])
            fn = self.make_callable(op[1], op[3])
            bound = ex.flat_bind(fn) if (len(op) > 5 and op[5]) else ex.bind(fn)
            self.bound = getattr(self, "bound", {})
            self.bound["%s@0" % op[1]] = bound  # every intermediate bound callable stays usable on its own
            for i, layer in enumerate(op[4]):
                bound = self.add_layer_method(bound, layer, "%s.A%d" % (op[1], i))
                self.bound["%s@%d" % (op[1], i + 1)] = bound
            self.bound[op[1]] = bound
            return None
        if k == "execchain":
            # ["execchain", name, stack_before, layers_after, flat]: the same chain applied to the executor itself
            ex = self.build(op[1] + ".pre", op[2])
            if len(op) > 4 and op[4]:
                ex = ex.with_flat_map(lambda f: f)
            self.exs["%s@0" % op[1]] = [ex]
            for i, layer in enumerate(op[3]):
                ex = self.add_layer_method(ex, layer, "%s.A%d" % (op[1], i))
                self.exs["%s@%d" % (op[1], i + 1)] = [ex]
            self.exs[op[1]] = [ex]
            return None
        if k == "bcall":
            # ["bcall", name, futname, args, kwargs]
            f = self.bound[op[1]](*_thaw(op[3]), **dict(op[4] if len(op) > 4 else {}))
            self.futs[op[2]] = f
            return "called"
        if k == "xsubmit":
            # ["xsubmit", exname, futname, callable_spec, args, kwargs]: submit the same callable to the executor chain
            # (one callable per chain: a submit to a prefix "B@j" of the chain uses the callable of "B", as the bind form does)
            cname = op[1].split("@")[0]
            self.callables = getattr(self, "callables", {})
            fn = self.callables.get(cname)
            if fn is None:
                fn = self.callables[cname] = self.make_callable(cname, op[3])
            f = self.executor(op[1]).submit(fn, *_thaw(op[4]), **dict(op[5] if len(op) > 5 else {}))
            self.futs[op[2]] = f
            return "submitted"
        if k == "grab_base":
            self.bases = getattr(self, "bases", {})
            self.bases[op[2]] = self.exs[op[1]][0]
            return None
        if k == "runbase":
            base = self.bases[op[1]]
            n = 0
            i = 0
            while i < len(base.jobs):
                if base.jobs[i][4] == "queued":
                    base.run_job(i)
                    n += 1
                i += 1
            return n
        if k == "drop_base":
            self.bases.pop(op[1], None)
            return None
        if k == "weak":
            # ["weak", label, kind, name]: remember a weak reference to a harness-known object
            obj = {"fut": self.futs, "fn": self.fns, "obj": self.objs}[op[2]][op[3]] if op[2] != "ex" else self.executor(op[3])
            self.weak[op[1]] = weakref.ref(obj)
            return None
        if k == "forget":
            # drop every strong reference the harness holds for a submission: future, callable, argument objects
            f = op[1]
            fut = self.futs.pop(f, None)
            was_done = fut.done() if fut is not None else None
            fut = None
            self.fns.pop(f + ".fn", None)
            for n in list(self.objs):
                if n.startswith(f + "."):
                    self.objs.pop(n)
            for n in list(self.futs):
                if self.futs.get(n) is None:
                    self.futs.pop(n)
            self.raised.clear()
            return was_done
        if k == "forget_base":
            # drop the harness' references to the manual base jobs' futures
            for n in list(self.futs):
                if ".base.j" in n:
                    self.futs.pop(n)
            # ... and to the exception instances it recorded (their tracebacks keep the harness frames that ran the
            # callable, hence the base futures and whatever callbacks are still listed on them)
            self.raised.clear()
            return None
        if k == "alive":
            return dict((lab, r() is not None) for lab, r in sorted(self.weak.items()) if not op[1:] or lab in op[1:])
        if k == "exit_hook":
            # what the interpreter does at exit: the handler the library registered with atexit
            import more_executors._impl.event as ev
            ev.GLOBAL_HANDLER.on_exiting()
            return None
        if k == "exit_hook_reset":
            import more_executors._impl.event as ev
            ev.GLOBAL_HANDLER.shutdown = False
            return None
        if k == "metrics":
            return sys.modules["prometheus_client"].dump()
        if k == "threads":
            # library-created threads that are still alive right now
            return sorted(t.name for t in self.s.threads if not t.client and not t.done)
        if k == "same":
            return self.futs[op[1]] is self.futs[op[2]]
        if k == "nop":
            return None
        raise ValueError("bad op %r" % (op,))

    def run_ops(self, ops):
        for op in ops:
            self.exec_op(op)

    # -- whole programs
    def run_program(self, prog):
        s = self.s
        self.run_ops(prog.get("setup", []))
        threads = prog.get("threads", [])
        vts = []
        for i, ops in enumerate(threads[1:], start=1):
            vts.append(s.spawn_client("t%d" % i, self.run_ops, ops))
        if threads:
            self.run_ops(threads[0])
        for vt in vts:
            s.join_client(vt)
        self.rec("joined")
        settle = prog.get("settle", 0)
        if settle:
            vsched.v_sleep(settle)
        self.rec("settled")
        self.run_ops(prog.get("final", []))
        self.rec("program_end")


class WeakObj(object):
    def __init__(self, name):
        self.name = name

    def __repr__(self):
        return "<WeakObj %s>" % self.name


class CallableObj(object):
    """A callable object that keeps private state under names a careless wrapper might clobber."""

    def __init__(self, fn):
        self._fn = fn
        self._executor = "not-an-executor"
        self._name = "callable-own-name"
        self.calls = 0

    def __call__(self, *args, **kwargs):
        self.calls += 1
        return self._fn(*args, **kwargs)


class BadStr(tuple):
    """A perfectly good result object whose __str__ / __repr__ raise (a half-initialised record, a proxy to a closed connection).
    (A tuple carrying the usual tag, so that the harness can still tell whose result it is.)"""

    def __str__(self):
        raise ValueError("this object cannot be printed")

    __repr__ = __str__


class FalsyCallableObj(CallableObj):
    """A callable object whose truth value is False (think of a callable pipeline object with no stages: len() == 0)."""

    def __len__(self):
        return 0


class CallbackRec(object):
    def __init__(self, world, name, futname, behaviour):
        self.w = world
        self.name = name
        self.futname = futname
        self.behaviour = behaviour

    def __call__(self, f):
        w = self.w
        w.rec("cb", cb=self.name, fut=self.futname, done=f.done(), cancelled=f.cancelled())
        b = self.behaviour
        if b is None:
            return
        if b[0] == "raise":
            e = EXC[b[1]]()
            e.tag = ("cb", self.name)
            raise e
        if b[0] == "op":
            w.exec_op(b[1])
        if b[0] == "add_cb":
            f.add_done_callback(CallbackRec(w, b[1], self.futname, None))


def reset_library_globals():
    """Module-level state of the library that would otherwise leak from one case into the next."""
    import more_executors._impl.futures.timeout as ft
    import more_executors._impl.event as ev

    ft.EXECUTOR_REF = None
    _HASH_SERIAL[0] = 0
    pc = sys.modules.get("prometheus_client")
    if pc is not None and hasattr(pc, "reset"):
        pc.reset()
    ev.GLOBAL_HANDLER.shutdown = False
    ev.GLOBAL_HANDLER.atexit_registered = True  # same code path in every case, first or not
    ev.GLOBAL_HANDLER.events = []  # events of earlier (aborted) cases must not be visited by this case's exit hook


def execute(prog, tape=(), block_tape=(), clock_mode="exact", max_steps=400000, max_vtime=1e4,
            line_points=True, track_lock_order=False, point_hook=None, trace_funcs=None):
    """Run a program under a fresh scheduler; returns (scheduler, world)."""
    holder = {}
    reset_library_globals()

    def t0():
        w = World(vsched.CURRENT)
        holder["w"] = w
        w.run_program(prog)

    s = vsched.run_case([("t0", t0)], tape=tape, block_tape=block_tape, clock_mode=clock_mode,
                        max_steps=max_steps, max_vtime=max_vtime, line_points=line_points,
                        track_lock_order=track_lock_order, point_hook=point_hook, trace_funcs=trace_funcs)
    return s, holder.get("w")


class History(object):
    """Query helper over the recorded events."""

    def __init__(self, sched, world):
        self.s = sched
        self.w = world
        self.events = sched.events
        self.ops = {}
        for ev in self.events:
            seq, t, th, kind, d = ev
            if kind == "op_call":
                self.ops[d["oid"]] = {"oid": d["oid"], "op": d["op"], "thread": th, "call_seq": seq, "call_t": t,
                                      "ret_seq": None, "ret_t": None, "result": None}
            elif kind == "op_ret":
                o = self.ops[d["oid"]]
                o["ret_seq"] = seq
                o["ret_t"] = t
                o["result"] = d["result"]

    def of(self, *kinds):
        return [e for e in self.events if e[3] in kinds]

    def oplist(self, name=None):
        out = sorted(self.ops.values(), key=lambda o: o["call_seq"])
        if name:
            out = [o for o in out if o["op"][0] == name]
        return out

    def unfinished_ops(self):
        return [o for o in self.oplist() if o["ret_seq"] is None]
