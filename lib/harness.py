"""Shared runner for all property checks.

A check module (lib/checks/cNN.py) provides

    PROPERTY   = "C04"
    LEVEL      = "exploration"
    RULE       = "<how cases are generated, what is non-trivial>"
    ASSUMPTIONS = [...]
    def shards(tier, seed)   -> list of JSON-able shard specs
    def run_shard(spec, ctx) -> None      (reports into ctx, a ShardCtx)
    def replay(case)         -> list of violation dicts (empty = passes)

The runner fans the shards out over worker processes, merges the reports,
handles known findings, confirms violations in a fresh process, writes replay
files and the evidence file, and prints the verdict lines.

Exit codes: 0 held / 1 violation(s) / 2 harness error.
"""
import sys
import os
import json
import time
import hashlib
import argparse
import traceback
import importlib
import multiprocessing
import subprocess
import collections

VERIF = os.path.dirname(os.path.dirname(os.path.abspath(__file__)))
REPO = os.environ.get("VERIF_REPO", "/repo")
KNOWN_FILE = os.path.join(VERIF, "known_findings.json")


def canon(obj):
    return json.dumps(obj, sort_keys=True, separators=(",", ":"), default=repr)


def digest(obj):
    return hashlib.sha1(canon(obj).encode()).hexdigest()[:12]


class HarnessStop(KeyboardInterrupt):
    """Raised inside a Hypothesis test to stop the run on a harness problem."""


class Violation(Exception):
    def __init__(self, signature, detail=None):
        Exception.__init__(self, signature)
        self.signature = signature
        self.detail = detail


class ShardCtx(object):
    """Per-shard accumulator; everything in it is JSON-able (sets are digests)."""

    def __init__(self, spec, known_sigs):
        self.spec = spec
        self.known = set(known_sigs)
        self.evaluations = 0
        self.nontrivial = set()
        self.classes = collections.Counter()
        self.samples = []
        self._viol = {}  # signature -> smallest {signature, case, detail}
        self.suppressed = set()
        self.excluded_known = collections.Counter()
        self.inconclusive = 0
        self.exhaustive = []
        self.notes = []
        self.sample_cap = 3

    def case(self, case, nontrivial, classes=(), sample=None):
        """Account for one evaluated case."""
        self.evaluations += 1
        if nontrivial:
            self.nontrivial.add(digest(case))
        for c in classes:
            self.classes[c] += 1
        if nontrivial and len(self.samples) < self.sample_cap:
            self.samples.append(sample if sample is not None else case)

    def is_known(self, sig):
        return sig in self.known

    def violation(self, signature, case, detail):
        """Record a violation. Returns True if it is new (neither a listed known
        finding nor already found by an earlier search round of this shard)."""
        if signature in self.known:
            self.excluded_known[signature] += 1
            return False
        cur = self._viol.get(signature)
        if cur is None or len(canon(case)) < len(canon(cur["case"])):
            self._viol[signature] = {"signature": signature, "case": case, "detail": detail}
        return signature not in self.suppressed

    def export(self):
        return {
            "spec": self.spec,
            "evaluations": self.evaluations,
            "nontrivial": sorted(self.nontrivial),
            "classes": dict(self.classes),
            "samples": self.samples,
            "violations": list(self._viol.values()),
            "excluded_known": dict(self.excluded_known),
            "inconclusive": self.inconclusive,
            "exhaustive": self.exhaustive,
            "notes": self.notes,
        }


def load_known(prop):
    try:
        with open(KNOWN_FILE) as fh:
            data = json.load(fh)
    except FileNotFoundError:
        return [], []
    op = [f for f in data.get("findings", []) if f["property"] == prop]
    fixed = [f for f in data.get("fixed", []) if f["property"] == prop]
    return op, fixed


def _worker(args):
    modname, spec, known_sigs = args
    t0 = time.time()
    try:
        mod = importlib.import_module(modname)
        ctx = ShardCtx(spec, known_sigs)
        mod.run_shard(spec, ctx)
        out = ctx.export()
        out["wall_s"] = time.time() - t0
        return out
    except BaseException:
        return {"spec": spec, "harness_error": traceback.format_exc(), "wall_s": time.time() - t0}


def _replay_subprocess(modname, path, timeout=300):
    """Replay a case file in a fresh interpreter; returns list of violations or None on error."""
    cmd = [sys.executable, os.path.join(VERIF, "lib", "run.py"), "--module", modname, "--replay-raw", path]
    env = dict(os.environ)
    try:
        p = subprocess.run(cmd, capture_output=True, text=True, timeout=timeout, env=env,
                           cwd=os.path.join(VERIF, "lib"))
    except subprocess.TimeoutExpired:
        return None
    for line in p.stdout.splitlines():
        if line.startswith("REPLAY-RESULT "):
            return json.loads(line[len("REPLAY-RESULT "):])
    sys.stderr.write("replay subprocess failed: rc=%s\n%s\n%s\n" % (p.returncode, p.stdout[-2000:], p.stderr[-4000:]))
    return None


def _replay_many(modname, paths, timeout=600):
    """Replay several case files in ONE fresh interpreter. Returns {path: violations|None}."""
    if not paths:
        return {}
    cmd = [sys.executable, os.path.join(VERIF, "lib", "run.py"), "--module", modname, "--replay-many"] + list(paths)
    try:
        p = subprocess.run(cmd, capture_output=True, text=True, timeout=timeout, env=dict(os.environ), cwd=os.path.join(VERIF, "lib"))
    except subprocess.TimeoutExpired:
        return dict((x, None) for x in paths)
    out = dict((x, None) for x in paths)
    for line in p.stdout.splitlines():
        if line.startswith("REPLAY-RESULT "):
            body = json.loads(line[len("REPLAY-RESULT "):])
            out[body["path"]] = body["violations"]
    if any(v is None for v in out.values()):
        sys.stderr.write("replay subprocess problem: rc=%s\n%s\n%s\n" % (p.returncode, p.stdout[-1500:], p.stderr[-3000:]))
    return out


def write_replay(prop, kind, case, signature, detail, extra=None):
    d = os.path.join(VERIF, "replays", kind) if kind else os.path.join(VERIF, "replays")
    os.makedirs(d, exist_ok=True)
    body = {"property": prop, "signature": signature, "case": case, "detail": detail}
    if extra:
        body.update(extra)
    path = os.path.join(d, "%s-%s.json" % (prop, digest([signature, case])))
    with open(path, "w") as fh:
        json.dump(body, fh, indent=1, sort_keys=True, default=repr)
    return path


def run_check(modname, tier, seed, jobs=None):
    t0 = time.time()
    mod = importlib.import_module(modname)
    prop = mod.PROPERTY
    evidence_path = os.path.join(VERIF, "evidence", "%s.json" % prop)
    os.makedirs(os.path.dirname(evidence_path), exist_ok=True)
    try:
        os.remove(evidence_path)
    except FileNotFoundError:
        pass

    lines = []
    n_viol = 0
    harness_errors = []

    # 1. known findings: replay witnesses (fresh interpreter); still failing -> KNOWN-FINDING + excluded
    known_open, known_fixed = load_known(prop)
    known_sigs = []
    known_report = []
    wpaths = [os.path.join(VERIF, kf["witness"]) for kf in known_open + known_fixed if os.path.exists(os.path.join(VERIF, kf["witness"]))]
    wres = _replay_many(modname, wpaths)
    for kf in known_open:
        wpath = os.path.join(VERIF, kf["witness"])
        vs = wres.get(wpath)
        if vs is None:
            harness_errors.append({"spec": "known-finding witness", "harness_error": "could not replay %s" % wpath})
            continue
        sigs = [v["signature"] for v in vs]
        # a listed signature is excluded from the search whether or not its witness still hits it: the witness is a recorded
        # schedule, and any edit of the library's source (a repair elsewhere, say) renumbers the scheduling points it is
        # expressed in.  The KNOWN-FINDING line is printed when the finding is actually observed - by the witness here, or by
        # the search below.
        known_sigs.append(kf["signature"])
        if kf["signature"] in sigs:
            lines.append("KNOWN-FINDING: property=%s %s" % (prop, kf["what"]))
            known_report.append({"signature": kf["signature"], "still_fails": True})
        else:
            known_report.append({"signature": kf["signature"], "still_fails": False})
    # 2. regression tier: witnesses of fixed defects must pass
    regress = 0
    for kf in known_fixed:
        wpath = os.path.join(VERIF, kf["witness"])
        if wpath not in wres:
            continue
        vs = wres[wpath]
        if vs is None:
            harness_errors.append({"spec": "regression witness", "harness_error": "could not replay %s" % wpath})
            continue
        vs = [v for v in vs if v["signature"] not in known_sigs]
        regress += 1
        if vs:
            n_viol += 1
            lines.append("VIOLATION property=%s replay=%s" % (prop, wpath))
            lines.append("  (regression of fixed defect: %s) %s" % (kf.get("what"), vs[0]["signature"]))

    # 3. shards
    specs = mod.shards(tier, seed)
    jobs = jobs or int(os.environ.get("VERIF_JOBS", "16"))
    work = [(modname, sp, known_sigs) for sp in specs]
    if jobs == 1 or len(work) == 1:
        results = [_worker(w) for w in work]
    else:
        ctx = multiprocessing.get_context("fork")
        limit = int(os.environ.get("VERIF_SHARD_TIMEOUT", "1500" if tier == "quick" else "14400"))
        with ctx.Pool(min(jobs, len(work)), maxtasksperchild=1) as pool:
            asyncs = [pool.apply_async(_worker, (w,)) for w in work]
            results = []
            deadline = time.time() + limit
            for w, a in zip(work, asyncs):
                try:
                    results.append(a.get(max(1.0, deadline - time.time())))
                except multiprocessing.TimeoutError:
                    # a shard that does not come back is a harness problem (never a verdict)
                    results.append({"spec": w[1], "harness_error": "shard exceeded the %d s wall-clock guard" % limit, "wall_s": limit})
            pool.terminate()

    evaluations = 0
    nontrivial = set()
    classes = collections.Counter()
    samples = []
    excluded = collections.Counter()
    inconclusive = 0
    exhaustive = []
    viols = {}
    notes = []
    shard_walls = []
    for r in results:
        if "harness_error" in r:
            harness_errors.append(r)
            continue
        evaluations += r["evaluations"]
        nontrivial.update(r["nontrivial"])
        classes.update(r["classes"])
        for s in r["samples"]:
            if len(samples) < 6:
                samples.append(s)
        excluded.update(r["excluded_known"])
        inconclusive += r["inconclusive"]
        exhaustive.extend(r["exhaustive"])
        notes.extend(r["notes"])
        shard_walls.append(round(r["wall_s"], 2))
        for v in r["violations"]:
            cur = viols.get(v["signature"])
            if cur is None or len(canon(v["case"])) < len(canon(cur["case"])):
                viols[v["signature"]] = v

    for kf, rep in zip([k for k in known_open if os.path.join(VERIF, k["witness"]) in wres and wres[os.path.join(VERIF, k["witness"])] is not None], known_report):
        rep["seen_in_search"] = int(excluded.get(kf["signature"], 0))
        if not rep["still_fails"] and rep["seen_in_search"]:
            lines.append("KNOWN-FINDING: property=%s %s" % (prop, kf["what"]))

    # 4. confirm each distinct violation in a fresh process, write replay
    confirmed = []
    for sig, v in sorted(viols.items()):
        path = write_replay(prop, "", v["case"], sig, v["detail"])
        res = _replay_subprocess(modname, path)
        ok = res is not None and any(x["signature"] == sig for x in res)
        with open(path) as fh:
            body = json.load(fh)
        body["reproduced_fresh"] = bool(ok)
        with open(path, "w") as fh:
            json.dump(body, fh, indent=1, sort_keys=True, default=repr)
        if ok:
            n_viol += 1
            confirmed.append(sig)
            lines.append("VIOLATION property=%s replay=%s" % (prop, path))
            lines.append("  signature: %s" % sig)
        else:
            # not reproducible from the saved case: a harness problem, not a verdict
            harness_errors.append({"spec": "confirm", "harness_error": "violation %s did not reproduce in a fresh process (%s)" % (sig, path)})

    wall = time.time() - t0
    ev = {
        "property_id": prop,
        "tier": tier,
        "seed": int(seed),
        "level": mod.LEVEL,
        "coverage": {
            "evaluations": evaluations,
            "distinct_nontrivial": len(nontrivial),
            "rule": mod.RULE,
            "samples": samples if samples else [],
            "classes": dict(sorted(classes.items())),
            "exhaustive_domains": exhaustive,
            "excluded_known": dict(excluded),
            "inconclusive": inconclusive,
            "known_findings": known_report,
            "regression_replays": regress,
            "shards": len(specs),
            "shard_wall_s": shard_walls,
            "notes": notes[:20],
        },
        "assumptions": list(getattr(mod, "ASSUMPTIONS", [])),
        "wall_s": round(wall, 2),
        "violations": n_viol,
    }
    if exhaustive and all(e.get("complete") for e in exhaustive) and getattr(mod, "EXHAUSTIVE_ONLY", False):
        ev["coverage"]["exhaustive"] = True
    if harness_errors:
        ev["coverage"]["harness_errors"] = [str(h.get("harness_error"))[-1500:] for h in harness_errors[:5]]
    with open(evidence_path, "w") as fh:
        json.dump(ev, fh, indent=1, sort_keys=True, default=repr)

    for l in lines:
        print(l)
    print("%s tier=%s seed=%s evaluations=%d distinct_nontrivial=%d excluded_known=%d inconclusive=%d violations=%d wall=%.1fs"
          % (prop, tier, seed, evaluations, len(nontrivial), sum(excluded.values()), inconclusive, n_viol, wall))
    if harness_errors:
        for h in harness_errors[:5]:
            sys.stderr.write("HARNESS-ERROR %s\n%s\n" % (h.get("spec"), h.get("harness_error")))
        if n_viol:
            return 1
        return 2
    if evaluations and inconclusive > max(5, 0.02 * evaluations):
        sys.stderr.write("HARNESS-ERROR too many inconclusive cases (%d of %d)\n" % (inconclusive, evaluations))
        return 2 if not n_viol else 1
    return 1 if n_viol else 0


def main(argv=None):
    ap = argparse.ArgumentParser()
    ap.add_argument("--module", required=True)
    ap.add_argument("--tier", default=os.environ.get("VERIF_TIER", "quick"))
    ap.add_argument("--seed", default=os.environ.get("VERIF_SEED", "1"))
    ap.add_argument("--replay")
    ap.add_argument("--replay-raw")
    ap.add_argument("--replay-many", nargs="*")
    ap.add_argument("--jobs", type=int)
    a = ap.parse_args(argv)
    try:
        seed = int(a.seed)
    except ValueError:
        seed = 1
    if a.replay_many is not None:
        mod = importlib.import_module(a.module)
        for path in a.replay_many:
            with open(path) as fh:
                body = json.load(fh)
            try:
                vs = mod.replay(body["case"])
            except Exception:
                traceback.print_exc()
                continue
            print("REPLAY-RESULT " + json.dumps({"path": path, "violations": vs}, default=repr))
        return 0
    if a.replay_raw or a.replay:
        path = a.replay_raw or a.replay
        mod = importlib.import_module(a.module)
        with open(path) as fh:
            body = json.load(fh)
        vs = mod.replay(body["case"])
        if a.replay_raw:
            print("REPLAY-RESULT " + json.dumps(vs, default=repr))
            return 0
        if vs:
            for v in vs:
                print("VIOLATION property=%s replay=%s" % (mod.PROPERTY, path))
                print("  signature: %s" % v["signature"])
                print("  detail: %s" % json.dumps(v["detail"], default=repr)[:3000])
            return 1
        print("%s replay passes: %s" % (mod.PROPERTY, path))
        return 0
    try:
        return run_check(a.module, a.tier, seed, a.jobs)
    except SystemExit:
        raise
    except BaseException:
        traceback.print_exc()
        return 2


if __name__ == "__main__":
    sys.exit(main())
