"""Helpers shared by engine-mode checks: running cases, sweeps, random search."""
import gc
import sys
import traceback

import vsched
import world
import harness

SINGLE_LAYERS = {
    "map": [{"kind": "map", "fn": [["app", "m"]], "err": None}],
    "flat_map": [{"kind": "flat_map", "fn": [["fut", "done"]], "err": None}],
    "retry": [{"kind": "retry", "policy": {"type": "exc", "max_attempts": 3, "sleep": 0.5, "exponent": 2.0}}],
    "poll": [{"kind": "poll", "interval": 0.5}],
    "throttle": [{"kind": "throttle", "count": 1}],
    "timeout": [{"kind": "timeout", "t": 5000.0}],
    "cos": [{"kind": "cos"}],
}

_case_counter = [0]


def run_case(case, **kw):
    """Execute case = {"prog", "tape", "clock"} and return (scheduler, world)."""
    world.HASH_SALT[0] = int(case.get("hsalt", 0))
    vsched.JUMP_POINTS[0] = bool(case.get("jump_points", False))
    vsched.enable_instr_points(case.get("instr_points"))
    s, w = world.execute(
        case["prog"],
        tape=case.get("tape", ()),
        block_tape=case.get("btape", ()),
        clock_mode=case.get("clock", "exact"),
        max_steps=case.get("max_steps", 150000),
        max_vtime=case.get("max_vtime", 1e4),
        **kw
    )
    _case_counter[0] += 1
    if _case_counter[0] % 50 == 0:
        gc.collect()
    return s, w


def sweep(ctx, prog, name, evaluate, account, double=False, seed=1, picks=(0, 1), window=16, extra=None, double_in=None):
    """Every single pre-emption placement of `prog` (and, if double, every pair
    whose second pre-emption follows within `window` points of the first)."""
    base = {"prog": prog, "tape": [], "clock": "exact"}
    if extra:
        base.update(extra)
    viols, info = evaluate(base)
    account(ctx, base, viols, info, ["sweep:" + name.split("/")[-1]])
    n = info["steps"]
    # double_in: name of an entry of info holding (first, last) scheduling point of the default run between which the FIRST of two
    # pre-emptions is placed (a focused double sweep, cheap enough for the quick tier)
    focus = info.get(double_in) if double_in else None
    count = 1
    bad_run = 1 if viols else 0
    complete = True
    for i in range(n + 1):
        for p in picks:
            case = dict(base, tape=[[i, p]])
            viols, info = evaluate(case)
            account(ctx, case, viols, info, ["sweep:" + name.split("/")[-1]])
            count += 1
            bad_run = bad_run + 1 if [v for v in viols if not ctx.is_known(v["signature"])] else 0
        if bad_run >= 60:
            # 60 placements in a row violate (a broken tree: e.g. every run hangs until the virtual time limit):
            # the verdict is in, do not spend an hour confirming it
            complete = False
            ctx.notes.append("sweep of %s cut short after %d consecutive violating placements" % (name, bad_run))
            break
    ctx.exhaustive.append({"domain": "single pre-emption placements of " + name, "points": n, "size": count, "complete": complete})
    if (double or focus) and complete:
        count2 = 0
        for i in (range(n + 1) if double else range(max(0, focus[0] - 2), min(n, focus[1] + 2) + 1)):
            for p in picks:
                for j in range(window):
                    for q in picks:
                        case = dict(base, tape=[[i, p], [j, q]])
                        viols, info = evaluate(case)
                        account(ctx, case, viols, info, ["sweep2:" + name.split("/")[-1]])
                        count2 += 1
        ctx.exhaustive.append({"domain": "double pre-emption (%ssecond within %d points) of %s" % (
            "" if double else "first within points %d..%d of the default run, " % tuple(focus), window, name), "size": count2, "complete": True})


def random_search(ctx, spec, strategy, evaluate, account, max_rounds=4):
    """Hypothesis-driven search; after a failure the signature is suppressed and
    the search continues (root causes are enumerated, not just the first)."""
    from hypothesis import given, settings, seed, Phase, HealthCheck

    budget = spec["n"]
    for rnd in range(max_rounds):
        if budget <= 0:
            break
        state = {"err": None, "found": set(), "before": ctx.evaluations}

        @seed(spec["seed"] * 16 + rnd)
        @settings(max_examples=budget, database=None, deadline=None, derandomize=False,
                  report_multiple_bugs=False, phases=[Phase.generate, Phase.shrink],
                  suppress_health_check=list(HealthCheck))
        @given(strategy)
        def test(case):
            try:
                viols, info = evaluate(case)
            except vsched.HarnessError:
                state["err"] = traceback.format_exc()
                raise harness.HarnessStop()
            new = account(ctx, case, viols, info)
            if new:
                sigs = [v["signature"] for v in viols if v["signature"] not in ctx.known and v["signature"] not in ctx.suppressed]
                state["found"].update(sigs)
                raise harness.Violation(sigs[0] if sigs else "?")

        try:
            test()
        except harness.Violation:
            pass
        except harness.HarnessStop:
            raise RuntimeError("harness error inside case:\n%s" % state["err"])
        if not state["found"]:
            break
        ctx.suppressed.update(state["found"])
        budget -= ctx.evaluations - state["before"]


def sweep_deep(ctx, prog, name, evaluate, account, windows=(10, 10), pick=0, extra=None):
    """Three pre-emptions on a SMALL program: the first anywhere, each further one within a short window
    of the previous (for races that need 'B starts, A overtakes, B publishes first')."""
    base = {"prog": prog, "tape": [], "clock": "exact"}
    if extra:
        base.update(extra)
    viols, info = evaluate(base)
    n = info["steps"]
    count = 0
    for i in range(n + 1):
        for j in range(windows[0]):
            for k in range(windows[1]):
                case = dict(base, tape=[[i, pick], [j, pick], [k, pick]])
                viols, info = evaluate(case)
                account(ctx, case, viols, info, ["sweep3:" + name.split("/")[-1]])
                count += 1
    ctx.exhaustive.append({"domain": "triple pre-emption (windows %s) of %s" % (list(windows), name), "points": n, "size": count, "complete": True})
