"""Step-wise driving of the engine, for Hypothesis RuleBasedStateMachines.

One scheduler lives for the whole state-machine run.  The (uncontrolled)
Hypothesis thread posts one operation at a time into the mailbox of a parked
driver thread, lets the scheduler run until nothing is enabled at the current
virtual instant (quiescence), and then compares what it observes with a model.
Virtual time only moves when the machine says `advance(d)`.
"""
import gc
import sys

import vsched
import world


class StepWorld(object):
    def __init__(self, max_steps=2000000):
        assert vsched.CURRENT is None
        world.HASH_SALT[0] = 0
        world.reset_library_globals()
        self.s = vsched.Scheduler((), (), "exact", max_steps, 1e9, True)
        self._old_hook = sys.unraisablehook
        sys.unraisablehook = vsched._quiet_unraisable
        self._gc = gc.isenabled()
        gc.disable()
        vsched.CURRENT = self.s
        self.w = None
        self.drivers = []  # (vthread, mailbox, state dict)
        self.closed = False
        self._new_driver()
        self._settle()

    # -- drivers
    def _new_driver(self):
        box = vsched.CSimpleQueue()
        st = {"busy": False, "last": None}
        me = self

        def loop():
            if me.w is None:
                me.w = world.World(vsched.CURRENT)
            while True:
                op = box.get()
                if op is None:
                    return
                st["busy"] = True
                st["last"] = me.w.exec_op(op)
                st["busy"] = False

        vt = self.s.spawn("d%d" % len(self.drivers), loop)
        self.drivers.append((vt, box, st))
        return self.drivers[-1]

    def _settle(self):
        r = self.s.run()
        if r not in ("quiescent", None):
            raise vsched.HarnessError("step-wise run ended: %r\n%s" % (r, self.s.dump()))

    def do(self, op):
        """Run one operation on an idle driver until the world is quiescent.
        Returns the op result, or ["blocked"] if the operation is still parked."""
        drv = None
        for d in self.drivers:
            if not d[2]["busy"] and not d[0].done:
                drv = d
                break
        if drv is None:
            drv = self._new_driver()
            self._settle()
        vt, box, st = drv
        st["last"] = None
        st["busy"] = True  # until the driver reports back
        box.items.append(op)
        self.s.wake(box, 1)
        self._settle()
        if st["busy"]:
            return ["blocked"]
        return st["last"]

    def advance(self, d):
        r = self.s.advance(d)
        if r != "quiescent":
            raise vsched.HarnessError("advance ended: %r" % (r,))

    @property
    def now(self):
        return self.s.now

    def blocked_ops(self):
        return sum(1 for d in self.drivers if d[2]["busy"])

    def events_since(self, seq):
        return [e for e in self.s.events if e[0] > seq]

    def close(self):
        if self.closed:
            return
        self.closed = True
        try:
            self.s.abort()
        finally:
            vsched.CURRENT = None
            sys.unraisablehook = self._old_hook
            if self._gc:
                gc.enable()
            self.w = None
            self.drivers = []
            gc.collect()
