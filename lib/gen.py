"""Hypothesis strategies shared by the engine-mode checks."""
from hypothesis import strategies as st

RUN_LEN = st.one_of(st.integers(0, 40), st.integers(0, 400), st.integers(0, 4000))


def tapes(max_len=8):
    return st.lists(st.tuples(RUN_LEN, st.integers(0, 3)), max_size=max_len).map(
        lambda l: [list(x) for x in l]
    )


def permille_tapes(max_len=4):
    """Tape entries as per-mille of a calibrated step count (resolved by the check)."""
    return st.lists(st.tuples(st.integers(0, 1000), st.integers(0, 3)), max_size=max_len).map(
        lambda l: [list(x) for x in l]
    )


def resolve_permille(ptape, nsteps):
    """Turn per-mille positions (absolute, sorted) into a run-length tape."""
    pos = sorted((int(p * nsteps / 1000.0), c) for p, c in ptape)
    out = []
    last = 0
    for p, c in pos:
        out.append([max(0, p - last), c])
        last = p
    return out


EXC_NAMES = st.sampled_from(["E0", "E1", "E2", "E3", "EF", "CE"])  # EF: instances are falsy; CE: fails WITH a CancelledError instance
DELAYS = st.sampled_from([0.25, 0.5, 0.75, 1.0])


def simple_call_scripts(max_len=4):
    """Outcome scripts of a submitted callable: list of behaviours."""
    beh = st.one_of(
        st.just(["tag"]),
        EXC_NAMES.map(lambda e: ["raise", e]),
    )
    return st.lists(beh, min_size=1, max_size=max_len)


def map_fn_specs():
    return st.one_of(
        st.none(),
        st.just([["app", "m"]]),
        EXC_NAMES.map(lambda e: [["raise", e]]),
    )


def err_fn_specs():
    return st.one_of(
        st.none(),
        st.none(),
        st.just([["app", "h"]]),
        st.just([["reraise"]]),
        EXC_NAMES.map(lambda e: [["raise", e]]),
    )


def retry_policies(max_attempts=4):
    scripted = st.builds(
        lambda sh, sl: {"type": "script", "should": sh + [False], "sleep": sl},
        st.lists(st.sampled_from([True, True, False, "raise"]), min_size=1, max_size=3),
        st.lists(st.sampled_from([0, 0.25, 0.5, "raise"]), min_size=1, max_size=3))
    return st.one_of(
        scripted,
        st.builds(
            lambda m, s, e, ms, b: {"type": "exc", "max_attempts": m, "sleep": s, "exponent": e,
                                    "max_sleep": ms, "base": b},
            st.integers(1, max_attempts),
            DELAYS,
            st.sampled_from([1.0, 2.0]),
            st.sampled_from([1.0, 120]),
            st.sampled_from([["E0"], ["E0", "E3"], ["E2"], ["E0", "E2", "E3"]]),
        ),
    )


def layer(kinds=("map", "flat_map", "retry", "poll", "throttle", "timeout", "cos"), tap=False,
          block=False, long_timeouts=True):
    opts = []
    if "map" in kinds:
        opts.append(st.builds(lambda f, e: {"kind": "map", "fn": f, "err": e}, map_fn_specs(), err_fn_specs()))
    if "flat_map" in kinds:
        ff = st.one_of(
            st.none(),
            st.just([["fut", "done"]]),
            st.just([["fut", "err", "E2"]]),
            st.just([["raise", "E1"]]),
        )
        opts.append(st.builds(lambda f, e: {"kind": "flat_map", "fn": f, "err": e}, ff, st.none()))
    if "retry" in kinds:
        opts.append(retry_policies().map(lambda p: {"kind": "retry", "policy": p}))
    if "poll" in kinds:
        opts.append(st.builds(lambda iv: {"kind": "poll", "interval": iv}, DELAYS))
    if "throttle" in kinds:
        cnt = st.sampled_from([1, 2, 3, None])
        blk = st.booleans() if block else st.just(False)
        opts.append(st.builds(lambda c, b: {"kind": "throttle", "count": c, "block": b and c is not None}, cnt, blk))
    if "timeout" in kinds:
        t = st.just(5000.0) if long_timeouts else st.sampled_from([0.5, 1.0, 2.0, 5000.0])
        opts.append(t.map(lambda x: {"kind": "timeout", "t": x}))
    if "cos" in kinds:
        opts.append(st.just({"kind": "cos"}))
    s = st.one_of(*opts)
    if tap:
        s = st.builds(lambda l, t: dict(l, tap=t), s, st.booleans())
    return s


def stacks(bases=("sync", "pool", "manual"), max_depth=4, min_depth=1, **kw):
    base = st.sampled_from(list(bases)).flatmap(
        lambda b: st.just({"kind": b}) if b != "pool" else st.integers(1, 3).map(lambda n: {"kind": "pool", "workers": n})
    )
    return st.builds(
        lambda b, ls: {"base": b, "layers": ls},
        base,
        st.lists(layer(**kw), min_size=min_depth, max_size=max_depth),
    )
